"""C27 - metadata cache entries round-trip and are replaced atomically."""
import os
import shutil
import tempfile

from pkgcore.cache import flat_hash
from sx import core
from sx.runner import Harness
from sx.shims import patched

ID = "C27"
MANIFEST = {
    "technique": "bounded model checking with solver-decided choice (SX engine): the metadata values (from menus containing '=', tabs, runs of spaces, non-ASCII), the inherited-eclass map (0-2 eclasses, directories with and without spaces, mtimes/md5s), the cache layout (flat_hash / md5-cache), whether a previous entry exists and the crash point of the store (before/after opening the temporary file, after writing, after the access fix-up, before/after the rename) are symbolic selectors; the engine forks over every feasible combination and runs the real cache store/read/keys code on a real scratch directory",
    "level_text": "Bounded model checking, exhaustive within the bound: every combination of 6 value menus x 4 eclass maps x 2 layouts x old-entry present/absent x 6 crash points (incl. no crash): an uninterrupted store reads back the same known keys, eclass data and validation checksum/mtime; after a crash a fresh reader sees the previous complete entry or the new one (or no entry when there was none), and keys() lists no name that is not a stored package. Selector-only; real code on a real directory.",
    "level_note": "selector-only harness (labelled as such). The crash is an exception raised at the chosen file operation (open, close/access fix-up, rename) of flat_hash.database._setitem; power-loss effects below the system-call level are outside.",
}
META = {
    "modules": ["pkgcore.cache", "pkgcore.cache.flat_hash", "pkgcore.cache.fs_template"],
    "functions": ["cache.base.__setitem__/__getitem__", "cache.base.deconstruct_eclasses/reconstruct_eclasses", "flat_hash.database._setitem/_getitem/_parse_data/keys/__contains__", "flat_hash.md5_cache"],
    "bounds": {"quick": "values from 6 menus, 4 eclass maps, 2 layouts, old entry yes/no, 6 crash points", "thorough": "same plus nested cpv directories"},
    "outside": ["multi-line values (stripped by design)", "concurrent writers", "torn writes below the system-call level"],
    "assumptions": [],
    "selector_only": True,
}

VALUES = [
    {"DESCRIPTION": "plain", "SLOT": "0"}, {"DESCRIPTION": "a=b=c", "SLOT": "0/1"}, {"DESCRIPTION": "tab\there  two  spaces", "KEYWORDS": "~amd64 x86"},
    {"DESCRIPTION": "café 中", "IUSE": "+a -b"}, {"DESCRIPTION": " leading and trailing ", "HOMEPAGE": "https://x/?a=1&b=2"}, {"DEPEND": ">=c/d-1 || ( e/f g/h )", "DESCRIPTION": "x"},
]
KEYS = ("DESCRIPTION", "SLOT", "KEYWORDS", "IUSE", "HOMEPAGE", "DEPEND", "INHERIT", "_eclasses_")


class Ecl:
    def __init__(self, path, mtime, md5):
        self.path, self.mtime, self.md5 = path, mtime, md5


ECLASSES = [
    {}, {"eutils": Ecl("/repo/eclass/eutils.eclass", 1700000000.7, 0xd41d8cd98f00b204e9800998ecf8427e)},
    {"a": Ecl("/r/eclass/a.eclass", 5, 1), "b-c": Ecl("/other repo/eclass/b-c.eclass", 6, (1 << 127) + 3)},
    {"z": Ecl("/eclass/z.eclass", 0, 0)},
]
CRASH = ["none", "before-open", "after-open", "after-write", "after-access", "after-rename"]


class Crash(BaseException):
    pass


class CacheHarness(Harness):
    active = frozenset()

    def region(self, name, inp):
        self.active = set(self.active) | {name}
        return False

    def setup(self, eng):
        return {"val": eng.int("val", 0, len(VALUES) - 1), "ecl": eng.int("ecl", 0, len(ECLASSES) - 1), "old": eng.bool("old"), "crash": eng.int("crash", 0, len(CRASH) - 1)}

    def _mk(self, loc):
        if self.ob["layout"] == "md5":
            return flat_hash.md5_cache(loc, auxdbkeys=KEYS)
        return flat_hash.database(loc, auxdbkeys=KEYS)

    def _entry(self, vi, ei, chf):
        d = dict(VALUES[vi])
        if ECLASSES[ei]:
            d["_eclasses_"] = dict(ECLASSES[ei])
            d["INHERIT"] = " ".join(ECLASSES[ei])
        d["_chf_"] = Ecl("/x", chf, chf * 7 + 1)
        return d

    def _expect(self, vi, ei, chf):
        d = {k: v for k, v in VALUES[vi].items()}
        md5 = self.ob["layout"] == "md5"
        if ECLASSES[ei]:
            d["INHERIT"] = " ".join(ECLASSES[ei])
            d["_eclasses_"] = [(n, (("md5", e.md5),) if md5 else (("eclassdir", os.path.dirname(e.path)), ("mtime", int(e.mtime)))) for n, e in ECLASSES[ei].items()]
        d["_md5_" if md5 else "_mtime_"] = chf * 7 + 1 if md5 else chf
        return d

    def body(self, inp):
        c = core.fix(inp) if core.ENG is not None else inp
        crash = CRASH[c["crash"]]
        td = tempfile.mkdtemp(prefix="c27-")
        try:
            cpv = self.ob["cpv"]
            out = {"crash": crash, "old": c["old"]}
            if c["old"]:
                self._mk(td)[cpv] = self._entry((c["val"] + 1) % len(VALUES), (c["ecl"] + 1) % len(ECLASSES), 1000)
            db = self._mk(td)
            real_open, real_rename = open, os.rename
            instant = {}

            def view():
                """what a reader process sees right now (nothing of the writer has been closed or flushed for it)"""
                rd = self._mk(td)
                try:
                    g = dict(rd[cpv])
                    g = {k: (list(map(lambda t: [t[0], [list(x) for x in t[1]]], v)) if k == "_eclasses_" else v) for k, v in g.items()}
                except KeyError:
                    g = "KeyError"
                except Exception as e:
                    g = "exception " + type(e).__name__
                instant["got"], instant["keys"] = g, sorted(rd.keys())

            def die():
                view()
                raise Crash()

            def my_open(path, *a, **k):
                if crash == "before-open":
                    die()
                f = real_open(path, *a, **k)
                if crash == "after-open":
                    die()
                return f

            class OsProxy:
                def __getattr__(self, n):
                    return getattr(os, n)

                @staticmethod
                def rename(a, b):
                    if crash == "after-access":
                        die()
                    real_rename(a, b)
                    if crash == "after-rename":
                        die()

            real_access = db._ensure_access

            def my_access(*a, **k):
                if crash == "after-write":
                    die()
                return real_access(*a, **k)

            db._ensure_access = my_access
            crashed = False
            with patched((flat_hash, "open", my_open), (flat_hash, "os", OsProxy())):
                try:
                    db[cpv] = self._entry(c["val"], c["ecl"], 2000)
                except Crash:
                    crashed = True
            out["crashed"] = crashed
            rd = self._mk(td)
            try:
                got = dict(rd[cpv])
                got = {k: (list(map(lambda t: [t[0], [list(x) for x in t[1]]], v)) if k == "_eclasses_" else v) for k, v in got.items()}
            except KeyError:
                got = "KeyError"
            except Exception as e:
                got = "exception " + type(e).__name__
            out["got"] = instant.get("got", got)
            out["keys"] = instant.get("keys", sorted(rd.keys()))
            norm = lambda d: {k: (list(map(lambda t: [t[0], [list(x) for x in t[1]]], v)) if k == "_eclasses_" else v) for k, v in d.items()}
            out["new"] = norm(self._expect(c["val"], c["ecl"], 2000))
            out["prev"] = norm(self._expect((c["val"] + 1) % len(VALUES), (c["ecl"] + 1) % len(ECLASSES), 1000)) if c["old"] else "KeyError"
            return out
        finally:
            shutil.rmtree(td, ignore_errors=True)

    def prop(self, inp, obs):
        cpv = self.ob["cpv"]
        got = obs["got"]
        if not obs["crashed"]:
            ok = got == obs["new"]
        else:
            ok = got == obs["new"] or got == obs["prev"]
        keys_ok = obs["keys"] == ([cpv] if got != "KeyError" else [])
        return ok and keys_ok


def harness(ob):
    return CacheHarness(ob)


UNIVERSE = {}


def obligations(tier, seed):
    obs = []
    for layout in ("flat", "md5"):
        for cpv in ("cat/pkg-1", "pkg-1") + (("cat/sub/pkg-1",) if tier != "quick" else ()):
            obs.append({"oid": f"layout={layout}|cpv={cpv}", "layout": layout, "cpv": cpv, "max_paths": 100000, "max_s": 1800})
    UNIVERSE[tier] = {"combinations": len(obs) * 6 * 4 * 2 * 6}
    return obs
