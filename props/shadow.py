"""Lowered shadow modules of pkgcore.ebuild.atom / cpv (compiled from /repo/src on
every run) through which symbolic strings can flow (f-strings, joins, `in`
lowered to helpers), plus the bindings that make their regexes/char-sets
symbolic.  Used by C02, C03, C05, C07."""
from pkgcore.ebuild import atom as real_atom
from pkgcore.ebuild import cpv as real_cpv
from pkgcore.ebuild import eapi as eapi_mod
from sx import lower, shims
from sx.shims import SymCharSet, SymRegex

from . import atoms

_CACHE = {}
SHIMS = ("int", "ord", "str", "isinstance", "len", "hash", "bool")


def get():
    """-> (shadow atom module, shadow cpv module)"""
    if "m" in _CACHE:
        return _CACHE["m"]
    scpv = lower.shadow("pkgcore.ebuild.cpv", shim_names=SHIMS)
    for nm in ("suffix_regexp", "isvalid_version_re", "isvalid_cat_re", "_pkg_re"):
        setattr(scpv, nm, SymRegex(getattr(real_cpv, nm)))
    # one Revision class only: real code does isinstance(x, Revision) against the real class
    scpv.Revision = real_cpv.Revision
    satom = lower.shadow("pkgcore.ebuild.atom", shim_names=SHIMS)
    satom.cpv = scpv
    scpv.atom = satom
    satom.valid_slot_chars = SymCharSet(real_atom.valid_slot_chars)
    satom.valid_repo_chars = SymCharSet(real_atom.valid_repo_chars)
    _CACHE["m"] = (satom, scpv)
    return _CACHE["m"]


_USE_RX = []


def bindings():
    """module-global rebindings active while shadow code runs on symbolic data"""
    if not _USE_RX:
        _USE_RX.append(SymRegex(eapi_mod._valid_use_flag))
    return atoms.shims() + [(eapi_mod, "_valid_use_flag", _USE_RX[0])]


def differential(texts, eapis=("-1",)):
    """translator validation: shadow and real constructors agree on concrete inputs
    (accept/reject, str(), attribute tuple).  Returns the number of comparisons."""
    from pkgcore.ebuild import errors

    satom, _ = get()
    n = 0

    def run(mod, s, e):
        try:
            a = mod.atom(s, eapi=e)
        except errors.MalformedAtom:
            return ("bad",)
        return ("ok", str(a), a.op, a.cpvstr, a.fullver, a.slot, a.subslot, a.slot_operator, a.repo_id, a.use, a.blocks, a.blocks_strongly, type(a).__name__, hash(a))

    for s in texts:
        for e in eapis:
            r1, r2 = run(satom, s, e), run(real_atom, s, e)
            assert r1 == r2, f"shadow/real atom mismatch on {s!r} eapi={e}: {r1} vs {r2}"
            n += 1
    return n
