"""C21 - protected configuration files are never silently overwritten or removed."""
import os
import shutil
import tempfile

from pkgcore.ebuild import triggers as etriggers
from pkgcore.fs import contents, livefs
from pkgcore.merge import triggers
from pkgcore.merge.engine import MergeEngine
from pkgcore.operations import observer as observer_mod
from props.mergefs import snapshot
from sx import core
from sx.runner import Harness

ID = "C21"
MANIFEST = {
    "technique": "bounded model checking with solver-decided choice (SX engine): the env.d settings below the offset (CONFIG_PROTECT with and without a trailing slash, CONFIG_PROTECT_MASK, COLLISION_IGNORE as a glob and as a directory entry), the pending ._cfgNNNN_ updates next to a protected file (none, identical to the incoming file, differing, gaps in the numbering, look-alike names), whether each incoming / recorded file is identical to the live one, and the engine mode (install / uninstall) are symbolic selectors; the engine forks over every feasible combination, builds the live root on a real scratch directory, runs the real MergeEngine hooks with ConfigProtectInstall(+_restore) / ConfigProtectUninstall and the merge / unmerge triggers and compares the file contents, the ._cfg names and the recorded contents with the specification",
    "level_text": "Bounded model checking, exhaustive within the bound (install: 3 x 2 x 3 settings x 5 pending-update shapes x 2^2 identical/differing; uninstall: the settings x 2^3 modified/unmodified): a live file under CONFIG_PROTECT (and /etc), not masked and not ignored, whose content differs from the incoming one keeps its content; the incoming file appears beside it as ._cfgNNNN_<name> with the number of an identical pending update or else one above every pending number; the recorded contents carry the real names; masked, ignored and unprotected files are overwritten; an identical incoming file creates no update; unmerging keeps exactly the protected files whose content differs from the recorded one. Selector-only; real code on real files.",
    "level_note": "selector-only harness (labelled as such). The offset is a scratch directory (offset '/' cannot be exercised).",
}
META = {
    "modules": ["pkgcore.ebuild.triggers", "pkgcore.merge.engine", "pkgcore.merge.triggers"],
    "functions": ["etriggers.gen_config_protect_filter", "etriggers.gen_collision_ignore_filter", "etriggers.ConfigProtectInstall.trigger", "etriggers.ConfigProtectInstall_restore.trigger", "etriggers.ConfigProtectUninstall.trigger", "etriggers.collapse_envd", "etriggers.simple_chksum_compare", "engine.MergeEngine.install/uninstall"],
    "bounds": {"quick": "menus above", "thorough": "same (the space is swept completely in both tiers)"},
    "outside": ["offset '/'", "CONFIG_PROTECT passed as extra_protects by the domain"],
    "assumptions": [],
    "selector_only": True,
}

PROTECT = [None, "/opt/app/conf", "/opt/app/conf/"]
MASK = [None, "/etc/masked"]
IGNORE = [None, "/etc/ign/*", "/etc/ign"]
# pending updates next to /etc/app.conf: (file name, content)
PENDING = [
    [], [("._cfg0000_app.conf", "NEW app\n")], [("._cfg0000_app.conf", "other\n"), ("._cfg0003_app.conf", "other2\n")],
    [("._cfg0001_app.conf", "NEW app\n"), ("._cfg0005_app.conf", "other\n")], [("._cfg0007_other.conf", "x\n"), ("._cfgXXXX_app.conf", "y\n"), ("._cfg0002_app.conf", "other\n")],
]
EXPECT_NUM = [0, 0, 4, 1, 3]
FILES = {"etc/app.conf": "app", "opt/app/conf/main.cfg": "main", "etc/masked/m.conf": "m", "etc/ign/i.conf": "i", "usr/lib/plain": "plain", "etc/masked-local/s.conf": "s", "etc/ignored.conf": "g"}


class FakePkg:
    def __init__(self, cset, name):
        self.contents, self.name = cset, name

    def __str__(self):
        return self.name


class Observer(observer_mod.repo_observer):
    def __init__(self):
        super().__init__(observer_mod.null_output())
        self.warnings = []

    def warn(self, msg, *a, **k):
        self.warnings.append(str(msg).strip().splitlines()[-1][:200])


def mkfile(path, data):
    os.makedirs(os.path.dirname(path), exist_ok=True)
    with open(path, "w") as f:
        f.write(data)


def is_protected(rel, c):
    """the statement's notion of a protected path"""
    loc = "/" + rel
    prot = loc.startswith("/etc/") or (PROTECT[c["protect"]] is not None and loc.startswith("/opt/app/conf/"))
    if MASK[c["mask"]] and loc.startswith("/etc/masked/"):
        prot = False
    if IGNORE[c["ignore"]] and loc.startswith("/etc/ign/"):
        prot = False
    return prot


class ConfigHarness(Harness):
    def setup(self, eng):
        inp = {"mode": self.ob["mode"], "protect": self.ob["protect"], "ignore": self.ob["ignore"], "mask": eng.int("mask", 0, 1)}
        if self.ob["mode"] == "install":
            inp["pending"] = eng.int("pending", 0, len(PENDING) - 1)
            inp["same_app"], inp["same_main"] = eng.bool("incoming_app_identical"), eng.bool("incoming_main_identical")
        else:
            for k in ("mod_app", "mod_main", "mod_m"):
                inp[k] = eng.bool(k)
        return inp

    def body(self, inp):
        c = core.fix(inp) if core.ENG is not None else inp
        mode = c["mode"]
        td = os.path.realpath(tempfile.mkdtemp(prefix="c21-"))
        try:
            root, img, tmp = os.path.join(td, "root"), os.path.join(td, "img"), os.path.join(td, "tmp")
            os.makedirs(tmp)
            lines = []
            if PROTECT[c["protect"]]:
                lines.append(f'CONFIG_PROTECT="{PROTECT[c["protect"]]}"')
            if MASK[c["mask"]]:
                lines.append(f'CONFIG_PROTECT_MASK="{MASK[c["mask"]]}"')
            if IGNORE[c["ignore"]]:
                lines.append(f'COLLISION_IGNORE="{IGNORE[c["ignore"]]}"')
            mkfile(os.path.join(root, "etc/env.d/50test"), "".join(l + "\n" for l in lines))
            live, incoming = {}, {}
            for rel, tag in FILES.items():
                live[rel] = f"old {tag}\n"
                incoming[rel] = f"NEW {tag}\n"
            obs = Observer()
            exc = None
            problems = []
            if mode == "install":
                if c["same_app"]:
                    incoming["etc/app.conf"] = live["etc/app.conf"]
                if c["same_main"]:
                    incoming["opt/app/conf/main.cfg"] = live["opt/app/conf/main.cfg"]
                for rel, data in live.items():
                    mkfile(os.path.join(root, rel), data)
                for n, data in PENDING[c["pending"]]:
                    mkfile(os.path.join(root, "etc", n), data)
                for rel, data in incoming.items():
                    mkfile(os.path.join(img, rel), data)
                before = snapshot(root)
                new = contents.contentsSet(livefs.scan(img, offset=img))
                try:
                    engine = MergeEngine.install(tmp, FakePkg(new, "fake/new-1"), offset=root, disable_plugins=True, observer=obs)
                    etriggers.ConfigProtectInstall().register(engine)
                    triggers.merge().register(engine)
                    for ph in ("sanity_check", "pre_merge", "merge", "post_merge", "final"):
                        getattr(engine, ph)()
                    recorded = sorted(x.location for x in engine.get_merged_cset() if not x.is_dir)
                except Exception as e:
                    exc = f"{type(e).__name__}: {e}".replace(td, "<scratch>")
                    recorded = None
                after = snapshot(root)
                for rel in FILES:
                    loc = "/" + rel
                    d, n = os.path.split(loc)
                    now = after.get(loc, {}).get("data")
                    new_cfg = sorted(p for p in after if p.startswith(d + "/._cfg") and p.endswith("_" + n) and p not in before)
                    if is_protected(rel, c) and incoming[rel] != live[rel]:
                        if now != live[rel]:
                            problems.append(f"{loc}: protected file overwritten")
                        num = EXPECT_NUM[c["pending"]] if rel == "etc/app.conf" else 0
                        want = f"{d}/._cfg{num:04d}_{n}"
                        if after.get(want, {}).get("data") != incoming[rel]:
                            problems.append(f"{loc}: incoming file not found as {want} (new ._cfg files: {new_cfg})")
                        if [p for p in new_cfg if p != want]:
                            problems.append(f"{loc}: unexpected update files {new_cfg}")
                    else:
                        if now != incoming[rel]:
                            problems.append(f"{loc}: not protected (or identical), yet the incoming content is not in place")
                        if new_cfg:
                            problems.append(f"{loc}: update file {new_cfg} written although nothing needed protection")
                if recorded is not None and recorded != sorted("/" + r for r in FILES):
                    problems.append(f"recorded contents are {recorded}")
                # pending updates and everything else stay as they were
                for p, b in before.items():
                    if p in ("/" + r for r in FILES) or b.get("data") is None:
                        continue
                    want_same = True
                    if after.get(p, {}).get("data") != b["data"] and want_same:
                        # an identical pending update may be rewritten with the same bytes, nothing else
                        problems.append(f"{p}: changed or removed")
            else:
                modified = {"etc/app.conf": c["mod_app"], "opt/app/conf/main.cfg": c["mod_main"], "etc/masked/m.conf": c["mod_m"], "etc/ign/i.conf": True, "usr/lib/plain": True, "etc/masked-local/s.conf": True, "etc/ignored.conf": True}
                for rel, data in live.items():
                    mkfile(os.path.join(img, rel), data)  # what the package recorded
                    mkfile(os.path.join(root, rel), data + ("edited by the admin\n" if modified[rel] else ""))
                old = contents.contentsSet(x for x in livefs.scan(img, offset=img) if not x.is_dir)
                for x in old:
                    x.chksums  # noqa: B018 - recorded checksums are those of the package's own copy
                try:
                    engine = MergeEngine.uninstall(tmp, FakePkg(old, "fake/old-1"), offset=root, disable_plugins=True, observer=obs)
                    etriggers.ConfigProtectUninstall().register(engine)
                    triggers.unmerge().register(engine)
                    for ph in ("sanity_check", "pre_unmerge", "unmerge", "post_unmerge", "final"):
                        getattr(engine, ph)()
                except Exception as e:
                    exc = f"{type(e).__name__}: {e}".replace(td, "<scratch>")
                after = snapshot(root)
                for rel in FILES:
                    loc = "/" + rel
                    keep = is_protected(rel, c) and modified[rel]
                    if keep and loc not in after:
                        problems.append(f"{loc}: modified protected file removed")
                    if not keep and loc in after:
                        problems.append(f"{loc}: listed file left behind although " + ("unmodified" if is_protected(rel, c) else "not protected"))
            if exc:
                problems.append(f"engine raised {exc}")
        finally:
            shutil.rmtree(td, ignore_errors=True)
        return {"mode": mode, "settings": {"CONFIG_PROTECT": PROTECT[c["protect"]], "CONFIG_PROTECT_MASK": MASK[c["mask"]], "COLLISION_IGNORE": IGNORE[c["ignore"]]}, "choice": {k: v for k, v in c.items() if k not in ("mode", "protect", "mask", "ignore")}, "warnings": obs.warnings[:3], "problems": problems}

    def prop(self, inp, obs):
        return not obs["problems"]


def harness(ob):
    return ConfigHarness(ob)


UNIVERSE = {}


def obligations(tier, seed):
    obs = [{"oid": f"{mode}|CONFIG_PROTECT={PROTECT[p]}|COLLISION_IGNORE={IGNORE[i]}", "mode": mode, "protect": p, "ignore": i, "max_paths": 100000, "max_s": 2400} for mode in ("install", "uninstall") for p in range(len(PROTECT)) for i in range(len(IGNORE))]
    UNIVERSE[tier] = {"obligations": len(obs)}
    return obs
