"""C21 - protected configuration files are never silently overwritten or removed."""
import os
import shutil
import tempfile

from pkgcore.ebuild import triggers as etriggers
from pkgcore.fs import contents, livefs
from pkgcore.merge import triggers
from pkgcore.merge.engine import MergeEngine
from pkgcore.operations import observer as observer_mod
from props.mergefs import snapshot
import types

import z3

from sx import core, lower
from sx.core import SymStr
from sx.runner import Harness

ID = "C21"
MANIFEST = {
    "technique": "bounded model checking with solver-decided choice (SX engine): the env.d settings below the offset (CONFIG_PROTECT with and without a trailing slash, CONFIG_PROTECT_MASK, COLLISION_IGNORE as a glob and as a directory entry), the pending ._cfgNNNN_ updates next to a protected file (none, identical to the incoming file, differing, gaps in the numbering, look-alike names), whether each incoming / recorded file is identical to the live one, and the engine mode (install / uninstall) are symbolic selectors; the engine forks over every feasible combination, builds the live root on a real scratch directory, runs the real MergeEngine hooks with ConfigProtectInstall(+_restore) / ConfigProtectUninstall and the merge / unmerge triggers and compares the file contents, the ._cfg names and the recorded contents with the specification; in addition the ._cfgNNNN_ numbering is decided symbolically: a lowered copy of the real ConfigProtectInstall.trigger (compiled from /repo/src on every run) runs with the directory listing and the checksum comparison as stubs, the four digits of each of up to three pending updates and whether each is identical to the incoming file being solver variables, and z3 proves on every path that the chosen number is that of an identical pending update or exceeds every pending number",
    "level_text": "Bounded model checking, exhaustive within the bound (install: 3 x 2 x 3 settings x 5 pending-update shapes x 2^2 identical/differing; uninstall: the settings x 2^3 modified/unmodified): a live file under CONFIG_PROTECT (and /etc), not masked and not ignored, whose content differs from the incoming one keeps its content; the incoming file appears beside it as ._cfgNNNN_<name> with the number of an identical pending update or else one above every pending number; the recorded contents carry the real names; masked, ignored and unprotected files are overwritten; an identical incoming file creates no update; unmerging keeps exactly the protected files whose content differs from the recorded one (selector part: real code on real files). Symbolic part: for 0-2 (thorough: 0-3) pending updates with all 10^4 numbers each and all identical/differing combinations, among look-alike names, exactly one update file is produced beside the protected file and its number is that of an identical pending update, or else greater than every pending number.",
    "level_note": "The file-level harness is selector-only (labelled as such); the numbering harness is symbolic (digits through int()/max()/f-string formatting of the lowered trigger). Stubs of the numbering harness: listdir_files, livefs.gen_obj, simple_chksum_compare, pjoin. The offset is a scratch directory (offset '/' cannot be exercised).",
}
META = {
    "modules": ["pkgcore.ebuild.triggers", "pkgcore.merge.engine", "pkgcore.merge.triggers"],
    "functions": ["etriggers.gen_config_protect_filter", "etriggers.gen_collision_ignore_filter", "etriggers.ConfigProtectInstall.trigger", "etriggers.ConfigProtectInstall_restore.trigger", "etriggers.ConfigProtectUninstall.trigger", "etriggers.collapse_envd", "etriggers.simple_chksum_compare", "engine.MergeEngine.install/uninstall"],
    "bounds": {"quick": "menus above", "thorough": "same (the space is swept completely in both tiers)"},
    "outside": ["offset '/'", "CONFIG_PROTECT passed as extra_protects by the domain"],
    "assumptions": [],
    "selector_only": False,
    "stubs": ["numbering harness: listdir_files returns the pending names (symbolic digits) among decoys; livefs.gen_obj / simple_chksum_compare answer 'identical to the incoming file' from a solver Bool per pending update; pjoin concatenates symbolic strings"],
}

PROTECT = [None, "/opt/app/conf", "/opt/app/conf/"]
MASK = [None, "/etc/masked"]
IGNORE = [None, "/etc/ign/*", "/etc/ign"]
# pending updates next to /etc/app.conf: (file name, content)
PENDING = [
    [], [("._cfg0000_app.conf", "NEW app\n")], [("._cfg0000_app.conf", "other\n"), ("._cfg0003_app.conf", "other2\n")],
    [("._cfg0001_app.conf", "NEW app\n"), ("._cfg0005_app.conf", "other\n")], [("._cfg0007_other.conf", "x\n"), ("._cfgXXXX_app.conf", "y\n"), ("._cfg0002_app.conf", "other\n")],
]
EXPECT_NUM = [0, 0, 4, 1, 3]
FILES = {"etc/app.conf": "app", "opt/app/conf/main.cfg": "main", "etc/masked/m.conf": "m", "etc/ign/i.conf": "i", "usr/lib/plain": "plain", "etc/masked-local/s.conf": "s", "etc/ignored.conf": "g"}


class FakePkg:
    def __init__(self, cset, name):
        self.contents, self.name = cset, name

    def __str__(self):
        return self.name


class Observer(observer_mod.repo_observer):
    def __init__(self):
        super().__init__(observer_mod.null_output())
        self.warnings = []

    def warn(self, msg, *a, **k):
        self.warnings.append(str(msg).strip().splitlines()[-1][:200])


def mkfile(path, data):
    os.makedirs(os.path.dirname(path), exist_ok=True)
    with open(path, "w") as f:
        f.write(data)


def is_protected(rel, c):
    """the statement's notion of a protected path"""
    loc = "/" + rel
    prot = loc.startswith("/etc/") or (PROTECT[c["protect"]] is not None and loc.startswith("/opt/app/conf/"))
    if MASK[c["mask"]] and loc.startswith("/etc/masked/"):
        prot = False
    if IGNORE[c["ignore"]] and loc.startswith("/etc/ign/"):
        prot = False
    return prot


class ConfigHarness(Harness):
    def setup(self, eng):
        inp = {"mode": self.ob["mode"], "protect": self.ob["protect"], "ignore": self.ob["ignore"], "mask": eng.int("mask", 0, 1)}
        if self.ob["mode"] == "install":
            inp["pending"] = eng.int("pending", 0, len(PENDING) - 1)
            inp["same_app"], inp["same_main"] = eng.bool("incoming_app_identical"), eng.bool("incoming_main_identical")
        else:
            for k in ("mod_app", "mod_main", "mod_m"):
                inp[k] = eng.bool(k)
        return inp

    def body(self, inp):
        c = core.fix(inp) if core.ENG is not None else inp
        mode = c["mode"]
        td = os.path.realpath(tempfile.mkdtemp(prefix="c21-"))
        try:
            root, img, tmp = os.path.join(td, "root"), os.path.join(td, "img"), os.path.join(td, "tmp")
            os.makedirs(tmp)
            lines = []
            # a non-incremental variable first, several paths per incremental one
            if IGNORE[c["ignore"]]:
                lines.append(f'COLLISION_IGNORE="{IGNORE[c["ignore"]]}"')
            if PROTECT[c["protect"]]:
                lines.append(f'CONFIG_PROTECT="/opt/unused {PROTECT[c["protect"]]}"')
            if MASK[c["mask"]]:
                lines.append(f'CONFIG_PROTECT_MASK="{MASK[c["mask"]]} /opt/unused/masked"')
            mkfile(os.path.join(root, "etc/env.d/50test"), "".join(l + "\n" for l in lines))
            live, incoming = {}, {}
            for rel, tag in FILES.items():
                live[rel] = f"old {tag}\n"
                incoming[rel] = f"NEW {tag}\n"
            obs = Observer()
            exc = None
            problems = []
            if mode == "install":
                if c["same_app"]:
                    incoming["etc/app.conf"] = live["etc/app.conf"]
                if c["same_main"]:
                    incoming["opt/app/conf/main.cfg"] = live["opt/app/conf/main.cfg"]
                for rel, data in live.items():
                    mkfile(os.path.join(root, rel), data)
                for n, data in PENDING[c["pending"]]:
                    mkfile(os.path.join(root, "etc", n), data)
                for rel, data in incoming.items():
                    mkfile(os.path.join(img, rel), data)
                before = snapshot(root)
                new = contents.contentsSet(livefs.scan(img, offset=img))
                try:
                    engine = MergeEngine.install(tmp, FakePkg(new, "fake/new-1"), offset=root, disable_plugins=True, observer=obs)
                    etriggers.ConfigProtectInstall().register(engine)
                    triggers.merge().register(engine)
                    for ph in ("sanity_check", "pre_merge", "merge", "post_merge", "final"):
                        getattr(engine, ph)()
                    recorded = sorted(x.location for x in engine.get_merged_cset() if not x.is_dir)
                except Exception as e:
                    exc = f"{type(e).__name__}: {e}".replace(td, "<scratch>")
                    recorded = None
                after = snapshot(root)
                for rel in FILES:
                    loc = "/" + rel
                    d, n = os.path.split(loc)
                    now = after.get(loc, {}).get("data")
                    new_cfg = sorted(p for p in after if p.startswith(d + "/._cfg") and p.endswith("_" + n) and p not in before)
                    if is_protected(rel, c) and incoming[rel] != live[rel]:
                        if now != live[rel]:
                            problems.append(f"{loc}: protected file overwritten")
                        num = EXPECT_NUM[c["pending"]] if rel == "etc/app.conf" else 0
                        want = f"{d}/._cfg{num:04d}_{n}"
                        if after.get(want, {}).get("data") != incoming[rel]:
                            problems.append(f"{loc}: incoming file not found as {want} (new ._cfg files: {new_cfg})")
                        if [p for p in new_cfg if p != want]:
                            problems.append(f"{loc}: unexpected update files {new_cfg}")
                    else:
                        if now != incoming[rel]:
                            problems.append(f"{loc}: not protected (or identical), yet the incoming content is not in place")
                        if new_cfg:
                            problems.append(f"{loc}: update file {new_cfg} written although nothing needed protection")
                if recorded is not None and recorded != sorted("/" + r for r in FILES):
                    problems.append(f"recorded contents are {recorded}")
                # pending updates and everything else stay as they were
                for p, b in before.items():
                    if p in ("/" + r for r in FILES) or b.get("data") is None:
                        continue
                    want_same = True
                    if after.get(p, {}).get("data") != b["data"] and want_same:
                        # an identical pending update may be rewritten with the same bytes, nothing else
                        problems.append(f"{p}: changed or removed")
            else:
                modified = {"etc/app.conf": c["mod_app"], "opt/app/conf/main.cfg": c["mod_main"], "etc/masked/m.conf": c["mod_m"], "etc/ign/i.conf": True, "usr/lib/plain": True, "etc/masked-local/s.conf": True, "etc/ignored.conf": True}
                for rel, data in live.items():
                    mkfile(os.path.join(img, rel), data)  # what the package recorded
                    mkfile(os.path.join(root, rel), data + ("edited by the admin\n" if modified[rel] else ""))
                old = contents.contentsSet(x for x in livefs.scan(img, offset=img) if not x.is_dir)
                for x in old:
                    x.chksums  # noqa: B018 - recorded checksums are those of the package's own copy
                try:
                    engine = MergeEngine.uninstall(tmp, FakePkg(old, "fake/old-1"), offset=root, disable_plugins=True, observer=obs)
                    etriggers.ConfigProtectUninstall().register(engine)
                    triggers.unmerge().register(engine)
                    for ph in ("sanity_check", "pre_unmerge", "unmerge", "post_unmerge", "final"):
                        getattr(engine, ph)()
                except Exception as e:
                    exc = f"{type(e).__name__}: {e}".replace(td, "<scratch>")
                after = snapshot(root)
                for rel in FILES:
                    loc = "/" + rel
                    keep = is_protected(rel, c) and modified[rel]
                    if keep and loc not in after:
                        problems.append(f"{loc}: modified protected file removed")
                    if not keep and loc in after:
                        problems.append(f"{loc}: listed file left behind although " + ("unmodified" if is_protected(rel, c) else "not protected"))
            if exc:
                problems.append(f"engine raised {exc}")
        finally:
            shutil.rmtree(td, ignore_errors=True)
        return {"mode": mode, "settings": {"CONFIG_PROTECT": PROTECT[c["protect"]], "CONFIG_PROTECT_MASK": MASK[c["mask"]], "COLLISION_IGNORE": IGNORE[c["ignore"]]}, "choice": {k: v for k, v in c.items() if k not in ("mode", "protect", "mask", "ignore")}, "warnings": obs.warnings[:3], "problems": problems}

    def prop(self, inp, obs):
        return not obs["problems"]


# ---------------------------------------------------------------- the ._cfgNNNN_ numbering, for all numbers
class Ent:
    """stand-in for an fs entry: what ConfigProtectInstall.trigger touches"""

    is_reg = True

    def __init__(self, location, tag):
        self.location, self.tag = location, tag

    def change_attributes(self, location):
        return Ent(location, self.tag)


class Cset:
    def __init__(self, ents):
        self.ents = list(ents)

    def iterfiles(self):
        return iter(self.ents)

    def __getitem__(self, x):
        return next(e for e in self.ents if e.location == x.location)

    def remove(self, e):
        self.ents.remove(e)

    def add(self, e):
        self.ents.append(e)


def sx_pjoin(*parts):
    if all(isinstance(p, str) for p in parts):
        return os.path.join(*parts)
    items = []
    for i, p in enumerate(parts):
        if i:
            items.append("/")
        items += list(core.items_of(p))
    return core.mk(items)


def same_items(a, b):
    return len(a) == len(b) and all((x == y) if isinstance(x, str) or isinstance(y, str) else x.eq(y) for x, y in zip(a, b))


class NumberingHarness(Harness):
    """the real ConfigProtectInstall.trigger (lowered copy) with the directory listing and the checksum comparison as stubs:
    the 4 digits of every pending update and whether it is identical to the incoming file are solver variables"""

    def setup(self, eng):
        k = self.ob["pending"]
        return {"digits": [SymStr(tuple(eng.char(f"p{i}d{j}", "0123456789") for j in range(4))) for i in range(k)], "same": [eng.bool(f"identical{i}") for i in range(k)]}

    def body(self, inp):
        k = self.ob["pending"]
        names = [core.mk(list("._cfg") + list(core.items_of(inp["digits"][i])) + list("_app.conf")) for i in range(k)]
        decoys = ["app.conf", "._cfg0007_other.conf", "._cfgXXXX_app.conf", "._cfg12_app.conf", "._cfg00010app.conf"]
        td = os.path.realpath(tempfile.mkdtemp(prefix="c21n-"))
        try:
            os.makedirs(os.path.join(td, "etc"))
            live = Ent(os.path.join(td, "etc/app.conf"), "live")
            incoming = Ent(os.path.join(td, "etc/app.conf"), "incoming")
            install = Cset([incoming])

            def listdir_files(d):
                return list(decoys[:2]) + names + list(decoys[2:])

            def gen_obj(path):
                its = core.items_of(path)
                for i, n in enumerate(names):
                    ni = core.items_of(n)
                    if same_items(its[-len(ni):], ni):
                        return types.SimpleNamespace(pending=i)
                return types.SimpleNamespace(pending=None)  # not one of the pending updates

            def compare(a, b):
                if getattr(a, "pending", None) is not None:
                    return inp["same"][a.pending]
                return False  # the incoming file differs from the live one

            extra = {"listdir_files": listdir_files, "livefs": types.SimpleNamespace(gen_obj=gen_obj), "simple_chksum_compare": compare, "pjoin": sx_pjoin}
            if core.ENG is not None:
                trig = lower.shadow_func("pkgcore.ebuild.triggers", "ConfigProtectInstall.trigger", shim_names=("int", "str", "isinstance", "len"), extra=extra)
                t = etriggers.ConfigProtectInstall()
                trig(t, types.SimpleNamespace(offset=td), Cset([live]), install)
            else:
                import pkgcore.ebuild.triggers as real
                from sx.shims import patched

                t = etriggers.ConfigProtectInstall()
                with patched((real, "listdir_files", listdir_files), (real, "livefs", extra["livefs"]), (real, "simple_chksum_compare", compare)):
                    t.trigger(types.SimpleNamespace(offset=td), Cset([live]), install)
            locs = [e.location for e in install.ents]
        finally:
            shutil.rmtree(td, ignore_errors=True)
        out = {"n": len(locs), "name": None}
        if len(locs) == 1:
            its = core.items_of(locs[0])
            pre = len(td) + len("/etc/")
            out["dir_ok"] = same_items(its[:pre], tuple(td + "/etc/"))
            out["name"] = core.mk(its[pre:])
        return out

    def prop(self, inp, obs):
        if obs["n"] != 1 or not obs["dir_ok"]:
            return False
        its = core.items_of(obs["name"])
        head, tail = "._cfg", "_app.conf"
        nd = len(its) - len(head) - len(tail)
        if nd < 4 or not same_items(its[: len(head)], tuple(head)) or not same_items(its[len(its) - len(tail):], tuple(tail)):
            return False

        def val(ds):
            v = 0
            for d in ds:
                v = v * 10 + ((ord(d) if isinstance(d, str) else d) - 48)
            return v

        r = val(its[len(head): len(head) + nd])
        nums = [val(core.items_of(ds)) for ds in inp["digits"]]
        same = [b.e if hasattr(b, "e") else z3.BoolVal(bool(b)) for b in inp["same"]]
        r = r if not isinstance(r, int) else z3.IntVal(r)
        if not nums:
            return r == 0 if not isinstance(r, int) else r == 0
        any_same = z3.Or(*same) if len(same) > 1 else same[0]
        reuse = z3.Or(*[z3.And(sm, r == n) for sm, n in zip(same, nums)]) if len(same) > 1 else z3.And(same[0], r == nums[0])
        above = z3.And(*[r > n for n in nums]) if len(nums) > 1 else r > nums[0]
        return z3.And(z3.Implies(any_same, reuse), z3.Implies(z3.Not(any_same), above))


def harness(ob):
    return NumberingHarness(ob) if ob.get("numbering") else ConfigHarness(ob)


UNIVERSE = {}


def obligations(tier, seed):
    obs = [{"oid": f"{mode}|CONFIG_PROTECT={PROTECT[p]}|COLLISION_IGNORE={IGNORE[i]}", "mode": mode, "protect": p, "ignore": i, "max_paths": 100000, "max_s": 2400} for mode in ("install", "uninstall") for p in range(len(PROTECT)) for i in range(len(IGNORE))]
    for k in range(0, 4 if tier != "quick" else 3):
        obs.append({"oid": f"numbering|{k} pending updates with symbolic numbers", "numbering": True, "pending": k, "max_paths": 200000, "max_s": 2400})
    UNIVERSE[tier] = {"obligations": len(obs)}
    return obs
