"""C06 - boolean restriction trees evaluate as propositional logic; normal forms agree."""
import itertools
import random

import z3

from pkgcore.restrictions import boolean, packages, restriction, values
from sx import core
from sx.core import SymBool, SymStr, sstr, sym_and, sym_or
from sx.runner import Harness
from sx.shims import sym_str

ID = "C06"
MANIFEST = {
    "technique": "symbolic execution of the real match() of And/Or/JustOne/AtMostOne/Negate/PackageRestriction trees with symbolic leaf truth values (SX + z3), compared on every path with the propositional formula of the tree and with the evaluation of the real dnf_solutions()/cnf_solutions() clause lists",
    "level_text": "Bounded symbolic model checking: for every enumerated tree shape the solver proves that for all leaf valuations (and symbolic negate flags / attribute characters of the real leaf restrictions) the real match() equals the propositional formula and equals the denotation of every normal form pkgcore derives from the tree (a documented NotImplementedError is accepted, a wrong clause list is not). Bounded by tree depth/arity.",
    "level_note": "Trusted: SX engine, values.str shim, my propositional denotation of the four node kinds. Tree shapes are enumerated concretely (selectors); leaf truth values, leaf negate flags and matched attribute characters are solver variables. Counterexamples are replayed natively.",
}
META = {
    "modules": ["pkgcore.restrictions.boolean", "pkgcore.restrictions.restriction", "pkgcore.restrictions.packages", "pkgcore.restrictions.values"],
    "functions": [
        "boolean.AndRestriction.match/iter_dnf_solutions/dnf_solutions/cnf_solutions/iter_cnf_solutions",
        "boolean.OrRestriction.match/iter_dnf_solutions/dnf_solutions/cnf_solutions",
        "boolean.JustOneRestriction.match", "boolean.AtMostOneOfRestriction.match", "boolean.base.dnf_solutions/cnf_solutions",
        "restriction.Negate.match", "restriction.AlwaysBool.match",
        "packages.PackageRestriction.match", "values.EqualityMatch.match", "values.StrExactMatch.match",
    ],
    "shims": ["values.str -> sym_str"],
    "bounds": {
        "quick": "all trees of depth <= 2 over 3 leaves (custom leaf, PackageRestriction+EqualityMatch with symbolic negate, PackageRestriction+StrExactMatch on a symbolic character with symbolic negates), four node kinds x negate, 1-2 children per node, plus childless nodes and AlwaysBool leaves at depth 1; every leaf valuation",
        "thorough": "quick + seeded sample of depth-3 trees with up to 3 children per node",
    },
    "outside": ["normal forms with more than 300 clauses (pkgcore's own combinatorial expansion) are not evaluated", "depth > 3", "arity > 3", "force_True/force_False", "value-type trees (package-type trees only)"],
    "assumptions": ["denotation: And=conjunction, Or=disjunction, JustOne=exactly one (empty: true), AtMostOne=at most one, negate flips; DNF=or of and, CNF=and of or"],
    "selector_only": False,
}

KINDS = {"and": boolean.AndRestriction, "or": boolean.OrRestriction, "one": boolean.JustOneRestriction, "amo": boolean.AtMostOneOfRestriction}


class Leaf(restriction.base, caching=False):
    __slots__ = ("name", "type")

    def __init__(self, name):
        object.__setattr__(self, "name", name)
        object.__setattr__(self, "type", restriction.package_type)

    def match(self, pkg):
        return pkg.truth[self.name]

    def __repr__(self):
        return f"L{self.name}"


class Pkg:
    def __init__(self, inp):
        self.truth = {"a": inp["a"]}
        self.b = inp["b"]
        self.c = inp["c"]


LEAVES = ("a", "b", "c")


def build(t, inp):
    if t[0] == "leaf":
        n = t[1]
        if n == "a":
            return Leaf("a")
        with core.building():
            if n == "b":
                return packages.PackageRestriction("b", values.EqualityMatch(True, negate=inp["bvn"]), negate=inp["bn"])
            if n == "c":
                return packages.PackageRestriction("c", values.StrExactMatch("x", negate=inp["cvn"]), negate=inp["cn"])
        if n == "T":
            return restriction.AlwaysBool(restriction.package_type, True)
        if n == "F":
            return restriction.AlwaysBool(restriction.package_type, False)
        raise ValueError(n)
    k, neg, subs = t
    return KINDS[k](*[build(s, inp) for s in subs], negate=neg, node_type=restriction.package_type)


def leaf_truth(n, inp):
    """z3 truth of a leaf under symbolic inputs"""
    ub = core.unwrap_bool
    if n == "a":
        return ub(inp["a"])
    if n == "b":
        return z3.Xor(z3.Xor(ub(inp["b"]), ub(inp["bvn"])), ub(inp["bn"]))
    if n == "c":
        c = inp["c"]
        eq = core.unwrap_bool(c == "x") if isinstance(c, SymStr) else z3.BoolVal(c == "x")
        return z3.Xor(z3.Xor(eq, ub(inp["cvn"])), ub(inp["cn"]))
    if n == "T":
        return z3.BoolVal(True)
    if n == "F":
        return z3.BoolVal(False)


def denote(t, inp):
    if t[0] == "leaf":
        return leaf_truth(t[1], inp)
    k, neg, subs = t
    ch = [denote(s, inp) for s in subs]
    if k == "and":
        r = z3.And(ch) if ch else z3.BoolVal(True)
    elif k == "or":
        r = z3.Or(ch) if ch else z3.BoolVal(False)
    elif k == "one":
        r = z3.PbEq([(c, 1) for c in ch], 1) if ch else z3.BoolVal(True)
    else:
        r = z3.PbLe([(c, 1) for c in ch], 1) if ch else z3.BoolVal(True)
    return z3.Not(r) if neg else r


def tstr(t):
    if t[0] == "leaf":
        return t[1]
    k, neg, subs = t
    return ("!" if neg else "") + k + "(" + ",".join(tstr(s) for s in subs) + ")"


class TreeHarness(Harness):
    def shims(self):
        return [(values, "str", sym_str)]

    def setup(self, eng):
        return {
            "a": eng.bool("a"), "b": eng.bool("b"), "bn": eng.bool("bn"), "bvn": eng.bool("bvn"),
            "c": SymStr((eng.char("c", "xy"),)), "cn": eng.bool("cn"), "cvn": eng.bool("cvn"),
        }

    def body(self, inp):
        t = self.ob["tree"]
        node = build(t, inp)
        pkg = Pkg(inp)
        obs = {"match": node.match(pkg)}
        for form in ("dnf", "cnf"):
            for it in ("", "iter_"):
                for full in (False, True):
                    key = it + form + ("_full" if full else "")
                    fn = getattr(node, it + form + "_solutions", None)
                    if fn is None:
                        obs[key] = "absent"
                        continue
                    try:
                        sol = [list(c) for c in fn(full)]
                    except NotImplementedError:
                        obs[key] = "NotImplemented"
                        continue
                    if len(sol) > 300:
                        obs[key] = "too-large"  # pkgcore's own combinatorial expansion; outside the claim
                        continue
                    if form == "dnf":
                        obs[key] = sym_or(*[sym_and(*[x.match(pkg) for x in cl]) for cl in sol])
                    else:
                        obs[key] = sym_and(*[sym_or(*[x.match(pkg) for x in cl]) for cl in sol])
        return obs

    def prop(self, inp, obs):
        F = denote(self.ob["tree"], inp)
        conds = [core.eq_term(obs["match"], F)]
        for k, v in obs.items():
            if k == "match" or isinstance(v, str):
                continue
            conds.append(core.eq_term(v, F))
        return z3.And(conds)

    def expected(self, inp, obs):
        return {"formula": SymBool(denote(self.ob["tree"], inp))}

    def region(self, name, inp):
        if name == "childless-anyof":
            # a childless any-of node, or a negated childless all-of node (whose DNF is derived through one)
            def has(t):
                if t[0] == "leaf":
                    return False
                return (t[0] == "or" and not t[2]) or (t[0] == "and" and t[1] and not t[2]) or any(has(s) for s in t[2])
            return has(self.ob["tree"])
        raise KeyError(name)


def harness(ob):
    return TreeHarness(ob)


def trees(depth, leaves, arities=(1, 2)):
    for l in leaves:
        yield ("leaf", l)
    if depth == 0:
        return
    subs_all = list(trees(depth - 1, leaves, arities))
    for k in KINDS:
        for neg in (False, True):
            for n in arities:
                for subs in itertools.product(subs_all, repeat=n):
                    yield (k, neg, tuple(subs))


def _jsonable(t):
    return list(t[:2]) if t[0] == "leaf" else [t[0], t[1], [_jsonable(s) for s in t[2]]]


def rand_tree(rng, depth, leaves):
    if depth == 0 or rng.random() < 0.25:
        return ["leaf", rng.choice(leaves)]
    n = rng.choice((0, 1, 1, 2, 2, 2, 3))
    return [rng.choice(list(KINDS)), rng.random() < 0.4, [rand_tree(rng, depth - 1, leaves) for _ in range(n)]]


UNIVERSE = {}


def obligations(tier, seed):
    obs = []
    seen = set()

    def add(t):
        s = tstr(t)
        if s in seen:
            return
        seen.add(s)
        obs.append({"oid": s, "tree": _jsonable(t)})

    for t in trees(1, LEAVES + ("T", "F"), arities=(0, 1, 2)):
        add(t)
    for t in trees(1, LEAVES, arities=(3,)):
        add(t)
    for t in trees(2, ("a", "b")):
        add(t)
    UNIVERSE[tier] = {"fixed core (depth<=1 arity 0-3 over 5 leaf kinds; depth 2 over leaves a,b)": len(obs)}
    rng = random.Random(seed)
    if tier == "quick":
        full = list(trees(2, LEAVES))
        UNIVERSE[tier]["depth-2 three-leaf universe"] = len(full)
        for t in rng.sample(full, 6000):
            add(t)
        for _ in range(3000):
            t = rand_tree(rng, 3, LEAVES + ("T", "F"))
            if t[0] != "leaf":
                add(t)
        UNIVERSE[tier]["sampled (seeded)"] = len(obs) - UNIVERSE[tier][next(iter(UNIVERSE[tier]))]
    else:
        for t in trees(2, LEAVES):
            add(t)
        n0 = len(obs)
        UNIVERSE[tier]["depth<=2 exhaustive"] = n0
        for _ in range(60000):
            t = rand_tree(rng, 3, LEAVES + ("T", "F"))
            if t[0] != "leaf":
                add(t)
        UNIVERSE[tier]["depth-3 arity<=3 sampled (seeded)"] = len(obs) - n0
    return obs
