"""C07 - restrictions that compare equal are interchangeable (same matches, same hash)."""
import itertools
import random

import z3

from pkgcore.ebuild import atom as real_atom
from pkgcore.ebuild import cpv, restricts
from pkgcore.restrictions import boolean, packages, values
from sx import core, shims
from sx.core import SymBool, SymStr, sstr
from sx.runner import Harness
from sx.shims import sym_hash

from . import atoms, common, shadow
from .atoms import FakePkg, atom_text
from .common import SymVersion, shape, shape_str

ID = "C07"
MANIFEST = {
    "technique": "symbolic execution (SX proxies + z3) of the real __eq__, __hash__ and match of pairs of independently built look-alike restrictions (_VersionMatch/VersionMatch incl. _convert_ops, PackageRestriction/PackageRestrictionMulti, StrExactMatch, StrGlobMatch, ContainmentMatch, boolean trees, atoms) with symbolic negate flags, version digits, matcher strings and matched package/value; hash() modelled as injective on its argument; 'r1 == r2 implies equal hash keys and equal match results for every package/value' asserted on every path",
    "level_text": "Bounded symbolic model checking: for each enumerated pair of restriction constructions the solver proves that no assignment of negate flags, version digits, matcher characters and matched package/value makes the two restrictions compare equal while hashing differently or matching differently. The restriction-keyed caches (caching_repo, lru_cache of compiled REQUIRED_USE) are exercised concretely with the same look-alike pairs to confirm they key on ==/hash only. Bounded by the pair generator and the shape grammar.",
    "level_note": "Trusted: SX engine, shims (hash/str/isinstance/int/ord as module globals of restricts, packages, values, boolean, cpv, collections), hash modelled injective on its argument. Counterexamples are replayed natively on the unshimmed classes with the real hash().",
}
META = {
    "modules": ["pkgcore.ebuild.restricts", "pkgcore.restrictions.packages", "pkgcore.restrictions.values", "pkgcore.restrictions.boolean", "pkgcore.ebuild.atom", "pkgcore.repository.misc", "pkgcore.restrictions.required_use"],
    "functions": [
        "restricts._VersionMatch.__eq__/__hash__/_convert_ops/match", "restricts.VersionMatch.match", "packages.PackageRestriction.__eq__(generic)/__hash__/match", "packages.PackageRestrictionMulti",
        "values.StrExactMatch/StrGlobMatch/ContainmentMatch __eq__(generic)/__hash__/match", "values._HashedGenericEquality.__hash__", "boolean.base.__eq__(generic)/__hash__/match",
        "atom.atom.__eq__/__hash__/match", "repository.misc.caching_repo.match", "required_use._compiled_constraints (lru_cache keying)",
    ],
    "shims": ["hash -> sym_hash in restricts/packages/values/boolean", "cpv.int/ord/isinstance", "str/isinstance in values/restricts/collections"],
    "bounds": {
        "quick": "VersionMatch pairs: 6x6 operators x revision spellings {None, '', digits} x symbolic negate flags x 3 version shapes x 3 package shapes; StrExact/StrGlob pairs with 2 symbolic characters each, symbolic negate on wrapper and value, case_sensitive both ways; ContainmentMatch pairs over subsets of {a,b} with symbolic all/negate; PackageRestriction(Multi) attribute variants; And/Or trees over the former; atom pairs",
        "thorough": "same families, version shapes from the 14-shape list, 3-character matcher strings",
    },
    "outside": ["FunctionRestriction / identity-hashed classes", "hash collisions", "StrRegex on symbolic patterns"],
    "assumptions": ["hash(x) == hash(y) decided as equality of the arguments pkgcore passes to hash()"],
    "selector_only": False,
}

_MODS = (restricts, packages, values, boolean)


def _shims():
    out = atoms.shims()
    for m in _MODS:
        out.append((m, "hash", sym_hash))
    out.append((packages, "isinstance", shims.sym_isinstance))
    return out


def _heq(a, b):
    ha, hb = a.__hash__(), b.__hash__()
    if isinstance(ha, shims.SymHash) and isinstance(hb, shims.SymHash):
        return SymBool(core.eq_term(ha.key, hb.key))
    if isinstance(ha, shims.SymHash) or isinstance(hb, shims.SymHash):
        raise core.Unsupported("symbolic vs concrete hash")
    return ha == hb


def _rev(spec, V):
    if spec == "none":
        return None
    if spec == "empty":
        return cpv.Revision("")
    return cpv.Revision(V.revstr if V.rev is not None else "")


class PairHarness(Harness):
    def shims(self):
        return _shims()

    # ---- symbolic inputs per family
    def setup(self, eng):
        ob = self.ob
        fam = ob["fam"]
        inp = {}
        self.V = {}
        if fam in ("vm", "vmtree"):
            for n in ("v1", "v2", "p"):
                self.V[n] = SymVersion(eng, n, ob[n])
                inp[n] = self.V[n].inp()
            for n in ("n1", "n2"):
                inp[n] = eng.bool(n)
        elif fam in ("exact", "glob"):
            L = ob.get("len", 2)
            for n in ("s1", "s2", "val"):
                inp[n] = SymStr([eng.char(f"{n}_{i}", "aAbB") for i in range(L)])
            for n in ("n1", "n2", "N1", "N2"):
                inp[n] = eng.bool(n)
        elif fam == "contain":
            for n in ("n1", "n2", "a1", "a2"):
                inp[n] = eng.bool(n)
        elif fam == "multi":
            for n in ("n1", "n2"):
                inp[n] = eng.bool(n)
        elif fam == "atom":
            for n in ("x", "y", "p"):
                if ob[n] is not None and (n == "p" or ob[n].get("op")):
                    sh = ob[n] if n == "p" else ob[n]["ver"]
                    self.V[n] = SymVersion(eng, n, sh)
                    inp[n] = self.V[n].inp()
        return inp

    def _build(self, inp):
        ob = self.ob
        fam = ob["fam"]
        sym = core.ENG is not None
        if fam in ("vm", "vmtree"):
            r = []
            for k in ("1", "2"):
                V = inp["v" + k]
                rv = ob["rev" + k]
                rev = None if rv == "none" else cpv.Revision("" if rv == "empty" else V["rev"])
                cls = restricts.VersionMatch if ob.get("wrap", True) else restricts._VersionMatch
                m = cls(ob["op" + k], V["ver"], rev, negate=inp["n" + k])
                if fam == "vmtree":
                    kind = boolean.AndRestriction if ob["tree"] == "and" else boolean.OrRestriction
                    m = packages.AndRestriction(m, restricts.SlotDep("0")) if ob["tree"] == "and" else packages.OrRestriction(m, restricts.SlotDep("1"))
                r.append(m)
            pv = inp["p"]
            tgt = [FakePkg(pv["ver"], pv["rev"])]
            return r[0], r[1], tgt
        if fam in ("exact", "glob"):
            r = []
            for k in ("1", "2"):
                if fam == "exact":
                    v = values.StrExactMatch(inp["s" + k], case_sensitive=ob["cs" + k], negate=inp["n" + k])
                else:
                    v = values.StrGlobMatch(inp["s" + k], case_sensitive=ob["cs" + k], prefix=ob["pre" + k], negate=inp["n" + k])
                if ob.get("wrap", True):
                    v = packages.PackageRestriction(ob.get("attr" + k, "slot"), v, negate=inp["N" + k])
                r.append(v)
            if ob.get("wrap", True):
                tgt = [FakePkg("1", "", slot=inp["val"], subslot=inp["val"])]
            else:
                tgt = [inp["val"]]
            return r[0], r[1], tgt
        if fam == "contain":
            r = [values.ContainmentMatch(frozenset(ob["vals" + k]), match_all=inp["a" + k], negate=inp["n" + k]) for k in ("1", "2")]
            tgt = [frozenset(c) for n in range(3) for c in itertools.combinations("ab", n)]
            return r[0], r[1], tgt
        if fam == "multi":
            r = []
            for k in ("1", "2"):
                v = restricts._UseDepDefaultContainment(ob["miss" + k], frozenset(ob["vals" + k]), negate=inp["n" + k])
                if ob.get("wrap", True):
                    v = packages.PackageRestrictionMulti(tuple(ob["attrs" + k]), v)
                r.append(v)
            tgt = [FakePkg("1", "", use=u, iuse=i) for u, i in ((("a",), ("a",)), ((), ("a",)), ((), ()), (("a", "b"), ("a", "b")))]
            for t in tgt:
                t.iuse = frozenset()  # 'iuse' differs from 'iuse_stripped' so attribute tuples are distinguishable
            if not ob.get("wrap", True):
                tgt = [(t.iuse_stripped, t.use) for t in tgt]
            return r[0], r[1], tgt
        if fam == "atom":
            mod = shadow.get()[0] if sym else real_atom
            r = []
            for n in ("x", "y"):
                spec = ob[n]
                t = atom_text(spec, version=(inp[n]["ver"], inp[n]["rev"]) if n in inp else None)
                a = mod.atom(t)
                a.restrictions
                r.append(a)
            pv = inp["p"]
            tgt = [FakePkg(pv["ver"], pv["rev"], slot="0", subslot="a", repo="x", use=u, iuse=("a", "b")) for u in ((), ("a",), ("a", "b"))]
            return r[0], r[1], tgt
        raise ValueError(fam)

    def body(self, inp):
        sym = core.ENG is not None
        old = shims.ALWAYS_SYMHASH[0]
        shims.ALWAYS_SYMHASH[0] = sym
        try:
            with core.building():
                r1, r2, tgt = self._build(inp)
            heq = _heq(r1, r2) if sym else hash(r1) == hash(r2)
        finally:
            shims.ALWAYS_SYMHASH[0] = old
        with core.building():
            return {"eq": r1 == r2, "eq_r": r2 == r1, "ne": r1 != r2, "heq": heq, "m1": [r1.match(t) for t in tgt], "m2": [r2.match(t) for t in tgt]}

    def prop(self, inp, obs):
        eq = core.unwrap_bool(obs["eq"])
        same = core._z3and(core.unwrap_bool(a) == core.unwrap_bool(b) for a, b in zip(obs["m1"], obs["m2"]))
        return z3.And(z3.Implies(eq, z3.And(core.unwrap_bool(obs["heq"]), same)), eq == core.unwrap_bool(obs["eq_r"]), core.unwrap_bool(obs["ne"]) == z3.Not(eq))


class CacheHarness(Harness):
    """concrete exercise of the restriction-keyed caches with look-alike keys"""

    def run_custom(self, tier, regions):
        from pkgcore.repository import misc, util
        from pkgcore.ebuild.cpv import VersionedCPV
        from pkgcore.restrictions import required_use
        from pkgcore.ebuild.conditionals import DepSet
        from pkgcore.ebuild.atom import atom as A

        from . import c10

        ob = self.ob
        bad = []
        n = 0
        if ob["what"] == "caching_repo":
            repo = util.SimpleTree({"cat": {"pkg": ["1", "1-r1", "1.0", "2", "01"]}})
            qs = [restricts.VersionMatch(op, v, negate=ng) for op in ("=", "~", "<", ">=", "<=", ">") for v in ("1", "1.0", "01") for ng in (False, True)]
            qs += [A(t) for t in ("=cat/pkg-1", "~cat/pkg-1", "=cat/pkg-1*", "!=cat/pkg-1", "!!=cat/pkg-1", ">=cat/pkg-1-r1", "cat/pkg")]
            for order in (qs, list(reversed(qs))):
                c = misc.caching_repo(repo, sorted)
                for q in order:
                    got = [p.cpvstr for p in c.match(q)]
                    want = [p.cpvstr for p in sorted(repo.itermatch(q))]
                    n += 1
                    if got != want:
                        bad.append((str(q), got, want))
        else:
            texts = ["a? ( b )", "!a? ( b )", "|| ( a b )", "^^ ( a b )", "?? ( a b )", "a b", "|| ( b a )", "a? ( !b )", "( a b )", "?? ( a )", "^^ ( a )"]
            for order in (texts, list(reversed(texts))):
                required_use._compiled_constraints.cache_clear()
                for t in order:
                    ds = c10.parse(t)
                    got = sorted(tuple(sorted(s.items())) for s in required_use.find_constraint_satisfaction(ds, {"a", "b"}))
                    required_use._compiled_constraints.cache_clear()
                    want = sorted(tuple(sorted(s.items())) for s in required_use.find_constraint_satisfaction(c10.parse(t), {"a", "b"}))
                    n += 1
                    if got != want:
                        bad.append((t, got, want))
        res = {"status": "discharged" if not bad else "violated", "paths": n, "decisions": n, "queries": 0, "solver_s": 0.0, "replays": n, "nvars": 0, "nontrivial": True}
        if bad:
            res["cex"] = {"cinp": {"query": bad[0][0]}, "native": {"got": bad[0][1]}, "predicted": {"got": bad[0][1]}, "expected": {"got": bad[0][2]}}
        return res

    def body(self, cinp):
        return {"got": None}


def harness(ob):
    return CacheHarness(ob) if ob["fam"] == "cache" else PairHarness(ob)


OPS = ("<", "<=", "=", ">=", ">", "~")
UNIVERSE = {}


def obligations(tier, seed):
    rng = random.Random(seed)
    obs = []
    vshapes = [shape([1]), shape([1, 1]), shape([1], rev=1)] if tier == "quick" else [shape([1]), shape([1, 1]), shape([1], rev=1), shape([1], suf=[("p", 0)]), shape([2]), shape([1], letter=True)]
    pshapes = [shape([1]), shape([1], rev=1), shape([1, 1])]
    k = 0
    for o1, o2 in itertools.product(OPS, repeat=2):
        for vs in vshapes:
            for r1, r2 in (("none", "none"), ("none", "empty"), ("rev", "rev"), ("rev", "none")):
                if ("rev" in (r1, r2)) != (vs["rev"] is not None):
                    continue
                k += 1
                ps = pshapes[k % 3] if tier == "quick" else None
                for p in ([ps] if ps else pshapes):
                    sh = dict(vs, rev=None) if "~" in (o1, o2) and vs["rev"] is not None and False else vs
                    obs.append({"oid": f"vm:{o1}{r1}|{o2}{r2}|{shape_str(sh)}|p={shape_str(p)}|w{k % 2}", "fam": "vm", "op1": o1, "op2": o2, "rev1": r1, "rev2": r2, "v1": sh, "v2": sh, "p": p, "wrap": bool(k % 2)})
    for o1, o2 in (("=", "~"), ("<", ">="), ("~", "~"), ("=", "=")):
        for tree in ("and", "or"):
            obs.append({"oid": f"vmtree:{tree}:{o1}|{o2}", "fam": "vmtree", "tree": tree, "op1": o1, "op2": o2, "rev1": "none", "rev2": "none", "v1": shape([1]), "v2": shape([1]), "p": shape([1], rev=1)})
    L = 2 if tier == "quick" else 3
    for cs1, cs2 in itertools.product((True, False), repeat=2):
        for wrap in (True, False):
            obs.append({"oid": f"exact:cs{cs1}|cs{cs2}|wrap{wrap}", "fam": "exact", "cs1": cs1, "cs2": cs2, "wrap": wrap, "len": L})
            for a2 in ("slot", "subslot"):
                if wrap:
                    obs.append({"oid": f"exact:cs{cs1}|cs{cs2}|attr={a2}", "fam": "exact", "cs1": cs1, "cs2": cs2, "wrap": True, "attr2": a2, "len": L})
            for p1, p2 in itertools.product((True, False), repeat=2):
                obs.append({"oid": f"glob:cs{cs1}|cs{cs2}|pre{p1}|pre{p2}|wrap{wrap}", "fam": "glob", "cs1": cs1, "cs2": cs2, "pre1": p1, "pre2": p2, "wrap": wrap, "len": L})
    subsets = [("a",), ("b",), ("a", "b")]
    for v1, v2 in itertools.product(subsets, repeat=2):
        obs.append({"oid": f"contain:{','.join(v1)}|{','.join(v2)}", "fam": "contain", "vals1": list(v1), "vals2": list(v2)})
    attrsets = [("iuse_stripped", "use"), ("iuse", "use"), ("use", "iuse_stripped")]
    for a1, a2 in itertools.product(attrsets, repeat=2):
        obs.append({"oid": f"multi:{a1}|{a2}", "fam": "multi", "attrs1": list(a1), "attrs2": list(a2), "miss1": True, "miss2": True, "vals1": ["a"], "vals2": ["a"]})
    for m1, m2 in itertools.product((True, False), repeat=2):
        for v1, v2 in ((("a",), ("a",)), (("a", "b"), ("a", "b")), (("a",), ("b",))):
            obs.append({"oid": f"udc:{m1}{m2}|{v1}|{v2}", "fam": "multi", "wrap": False, "attrs1": [], "attrs2": [], "miss1": m1, "miss2": m2, "vals1": list(v1), "vals2": list(v2)})
    # atoms: equal-looking variants
    apairs = [
        ({"op": "", "use": ["a", "b"]}, {"op": "", "use": ["b", "a"]}), ({"op": "", "blk": "!"}, {"op": "", "blk": "!!"}), ({"op": "=", "ver": shape([1, 1])}, {"op": "=", "ver": shape([1, 2])}),
        ({"op": "~", "ver": shape([1])}, {"op": "=", "ver": shape([1])}), ({"op": "=", "ver": shape([1])}, {"op": "=", "ver": shape([1], rev=1)}), ({"op": ">=", "ver": shape([1]), "slot": "0"}, {"op": ">=", "ver": shape([1]), "slot": "0", "subslot": "a"}),
        ({"op": "=*", "ver": shape([1])}, {"op": "=", "ver": shape([1])}), ({"op": "", "use": ["a(+)"]}, {"op": "", "use": ["a"]}), ({"op": "", "repo": "x"}, {"op": "", "repo": "y"}),
    ]
    for x, y in apairs:
        for p in pshapes:
            obs.append({"oid": f"atom:{atom_text(x)}|{atom_text(y)}|p={shape_str(p)}", "fam": "atom", "x": x, "y": y, "p": p})
    obs.append({"oid": "cache:caching_repo", "fam": "cache", "what": "caching_repo"})
    obs.append({"oid": "cache:required_use", "fam": "cache", "what": "required_use"})
    UNIVERSE[tier] = {"obligations": len(obs)}
    return obs
