"""C17 - planner rollback restores the exact earlier state."""
import itertools

import z3

from pkgcore.ebuild.atom import atom
from pkgcore.resolver import state as st
from sx import core
from sx.core import SymStr
from sx.runner import Harness

from . import atoms
from .atoms import FakePkg

ID = "C17"
MANIFEST = {
    "technique": "symbolic execution (SX proxies + z3) of the real plan_state / PigeonHoledSlots operations (add_op, forced add, remove_op, replace_op incl. its failure path, add_blocker/incref/decref with explicit keys, hardref, backref, backtrack) on histories chosen by solver-decided selectors, with the versions of the packages symbolic digits so that which blockers match which packages (real atom.match executed symbolically) is decided by the solver; after each history the plan is rolled back to every earlier position and the snapshot compared with a replay of the surviving prefix",
    "level_text": "Bounded model checking of rollback: every history of <= 3 (quick) / 4 (thorough) operations from a 16-operation menu over 3 packages (2 sharing a slot), 3 blockers (one registered under a foreign key) and a forced restriction, for all package versions (symbolic digits deciding blocker matches), rolled back to every earlier plan position: slot occupancy, limiters, package-to-choice bindings, reverse blocker map, blocker and forced-restriction reference counts, installed-package exclusions and plan length equal those of replaying the surviving operations. Exhaustive in histories within the bound; version digits fully symbolic.",
    "level_note": "Operation applicability (e.g. removing a package that is in the plan) is decided by the harness from the live state, mirroring the resolver's own call discipline. List order inside slot/limiter lists is compared as a multiset. Trusted: SX engine, cpv shims. snakeoil RefCountingSet is a dependency (executed, not claimed).",
}
META = {
    "modules": ["pkgcore.resolver.state", "pkgcore.resolver.pigeonholes"],
    "functions": ["state.plan_state.backtrack/add_blocker/_remove_pkg_blockers", "state.add_op/remove_op/replace_op/add_hardref_op/add_backref_op/incref_forward_block_op/decref_forward_block_op apply+revert", "pigeonholes.PigeonHoledSlots.fill_slotting/remove_slotting/add_limiter/remove_limiter/check_limiters/get_conflicting_slot/find_atom_matches"],
    "shims": ["cpv.int/ord/isinstance, suffix_regexp -> SymRegex, str/isinstance in values/collections (symbolic versions through atom.match)"],
    "bounds": {"quick": "histories of <=3 operations over the 16-operation menu, 3 packages with 1-digit symbolic versions, rollback to every earlier position", "thorough": "histories of <=4 operations"},
    "outside": ["histories longer than 4", "more than 3 packages / 3 blockers", "the resolver's own sequencing of these operations (C15)"],
    "assumptions": [],
    "selector_only": False,
}

OPS = ["add:p1", "add:p2", "add:p3", "addf:p2", "addf:p1", "rm:p1", "rm:p2", "rm:p3", "repl:p2", "repl:p1", "blk:c1:B1", "blk:c3:B1", "blk:c1:B2", "blk:c3:B3k", "hard:R", "back:p1"]


class Choices:
    def __init__(self, n):
        self.n = n

    def __repr__(self):
        return "choices-" + self.n


class World:
    def __init__(self, inp):
        v = inp["ver"]
        self.pk = {"p1": FakePkg(v[0], "", slot="0", category="a", package="x"), "p2": FakePkg(v[1], "", slot="0", category="a", package="x"), "p3": FakePkg(v[2], "", slot="0", category="a", package="y")}
        for n, p in self.pk.items():
            p.name = n
        self.ch = {n: Choices(n) for n in ("p1", "p2", "p3")}
        self.ch["c1"], self.ch["c3"] = self.ch["p1"], self.ch["p3"]
        self.B = {"B1": atom("!<a/x-5"), "B2": atom("!a/y"), "B3k": atom("!>=a/virt-3")}
        self.R = atom("a/x")


def apply_op(plan, w, op):
    """apply one menu operation if the resolver's call discipline allows it; returns a tag"""
    kind, *args = op.split(":")
    if kind in ("add", "addf"):
        p = w.pk[args[0]]
        if p in plan.pkg_choices:
            return "skip"
        r = st.add_op(w.ch[args[0]], p, force=(kind == "addf")).apply(plan)
        return "conflict" if r else "ok"
    if kind == "rm":
        p = w.pk[args[0]]
        if p not in plan.pkg_choices:
            return "skip"
        st.remove_op(plan.pkg_choices[p], p).apply(plan)
        return "ok"
    if kind == "repl":
        p = w.pk[args[0]]
        old = plan.state.get_conflicting_slot(p)
        if p in plan.pkg_choices or old is None or old not in plan.pkg_choices:
            return "skip"
        r = st.replace_op(w.ch[args[0]], p).apply(plan)
        return "conflict" if r else "ok"
    if kind == "blk":
        b = w.B[args[1]]
        key = "a/y" if args[1] == "B3k" else None
        owner = w.pk["p1" if args[0] == "c1" else "p3"]
        if b.match(owner) and (key or b.key) == owner.key:
            # the resolver mangles a blocker so that it never matches the package it comes from
            return "skip"
        plan.add_blocker(w.ch[args[0]], b, key)
        return "ok"
    if kind == "hard":
        st.add_hardref_op(w.R).apply(plan)
        return "ok"
    if kind == "back":
        st.add_backref_op(w.ch[args[0]], w.pk[args[0]]).apply(plan)
        return "ok"
    raise ValueError(op)


def snapshot(plan, w):
    names = {id(p): n for n, p in w.pk.items()}
    bn = {id(b): n for n, b in w.B.items()}
    return {
        "slots": {k: sorted(names[id(p)] for p in v) for k, v in plan.state.slot_dict.items()},
        "limiters": {k: sorted(bn[id(b)] for b in v) for k, v in plan.state.limiters.items()},
        "choices": {names[id(p)]: repr(c) for p, c in plan.pkg_choices.items()},
        "rev": {repr(c): sorted((bn[id(b)], k) for b, k in v) for c, v in plan.rev_blockers.items()},
        "blk_ref": {bn[id(b)]: c for b, c in dict(plan.blockers_refcnt).items()},
        "vdb": sorted(names[id(p)] for p in plan.vdb_filter),
        "forced": {str(r): c for r, c in dict(plan.forced_restrictions).items()},
        "len": len(plan.plan),
    }


class RollbackHarness(Harness):
    def shims(self):
        return atoms.shims()

    def setup(self, eng):
        n = self.ob["n"] - len(self.ob["prefix"])
        return {"sel": [eng.int(f"op{i}", 0, len(OPS) - 1) for i in range(n)], "ver": [SymStr((eng.char(f"v{i}", "0123456789"),)) for i in range(3)]}

    def body(self, inp):
        sym = core.ENG is not None
        sel = list(self.ob["prefix"]) + list(core.fix(inp["sel"]) if sym else inp["sel"])
        ops = [OPS[i] for i in sel]

        def run(k):
            w = World(inp)
            plan = st.plan_state()
            pos = [0]
            tags = []
            for op in ops[:k]:
                tags.append(apply_op(plan, w, op))
                pos.append(len(plan.plan))
            return plan, w, pos, tags

        out = {"ops": ops, "mismatch": None}
        with core.building():
            try:
                plan, w, pos, tags = run(len(ops))
            except (AssertionError, KeyError) as e:
                out["mismatch"] = {"apply_raised": type(e).__name__}
                return out
            out["tags"] = tags
            for j in range(len(ops) - 1, -1, -1):
                try:
                    plan.backtrack(pos[j])
                    got = snapshot(plan, w)
                except (KeyError, AssertionError, ValueError) as e:
                    got = {"exception": type(e).__name__}
                p2, w2, _, _ = run(j)
                want = snapshot(p2, w2)
                if got != want:
                    out["mismatch"] = {"rollback_to_after_op": j, "got": got, "want": want}
                    break
        return out

    def prop(self, inp, obs):
        return obs["mismatch"] is None


def harness(ob):
    return RollbackHarness(ob)


UNIVERSE = {}


def obligations(tier, seed):
    obs = []
    top = 3 if tier == "quick" else 4
    for n in range(1, top + 1):
        if n == 1:
            obs.append({"oid": "n=1", "n": 1, "prefix": [], "max_paths": 300000, "max_s": 1200})
            continue
        pl = 1 if n <= 3 else 2
        for p in itertools.product(range(len(OPS)), repeat=pl):
            obs.append({"oid": f"n={n}|first={','.join(OPS[i] for i in p)}", "n": n, "prefix": list(p), "max_paths": 300000, "max_s": 1200})
    UNIVERSE[tier] = {"histories": sum(len(OPS) ** n for n in range(1, top + 1))}
    return obs
