"""C05 - atom intersection is symmetric, complete and witnessed."""
import itertools
import random

import z3

from pkgcore.ebuild import atom as real_atom
from pkgcore.ebuild import cpv as real_cpv
from sx import core
from sx.core import SymBool, SymStr, sstr
from sx.runner import Harness

from . import atoms, common, shadow
from .atoms import FakePkg, atom_text, ref_use_ok, ref_version_ok
from .common import SymVersion, shape, shape_str

ID = "C05"
MANIFEST = {
    "technique": "symbolic execution (SX proxies + z3) of the real atom.intersects in both argument orders on atoms built by the real (shadow-lowered) constructor from texts with symbolic version digits and symbolic slot/sub-slot/repo characters; symmetry asserted per path; completeness as the universally quantified formula 'a.match(p) and b.match(p) => intersects' with p's version symbolic (real atom.match executed symbolically); witnessedness as 'intersects => some Skolem witness built from the two versions satisfies both atoms' (purely universal), with a bounded native search deciding the cases the Skolem set misses",
    "level_text": "Bounded symbolic model checking of atom.intersects: for every enumerated operator pair, version-shape pair, slot/sub-slot/repo/USE configuration the solver proves on every path that the answer is the same in both orders, that no package version in the shape universe matches both atoms while they are reported disjoint, and that a reported intersection has a witness among the constructed candidates. Bounded by the shape grammar; witness search bounded by the candidate constructors.",
    "level_note": "Trusted: SX engine, lowering, shims; reference matching semantics (atoms.ref_version_ok, proved equal to the real atom.match within the C04 bounds) is used for witnesses only; completeness uses the real match. A witness-clause model is reported as a violation only if a native search over ~10^3 perturbed versions finds no package matching both atoms; otherwise the obligation is inconclusive (Skolem set too small).",
}
META = {
    "modules": ["pkgcore.ebuild.atom", "pkgcore.ebuild.restricts", "pkgcore.ebuild.cpv"],
    "functions": ["atom.atom.intersects (all branches)", "atom.atom.__init__ (shadow-lowered)", "restricts.VersionMatch.match", "restricts.VersionGlobMatch.match", "atom.match (completeness clause)"],
    "shims": ["shadow modules: int/ord/str/isinstance/len/hash/bool", "cpv regexes -> SymRegex", "restricts.str"],
    "bounds": {
        "quick": "all 49 ordered operator pairs over {<,<=,=,~,>=,>,=*} x 8 version-shape pairs (digits symbolic, shapes chosen so that equal base version with different revisions, prefixes and suffix variants are reachable) + unversioned; slot/sub-slot/repo presence menus with symbolic characters; USE-dep pairs over {a,-a,b}; completeness packages from 6 shapes per pair",
        "thorough": "49 operator pairs x 40 shape pairs, completeness packages from 14 shapes",
    },
    "outside": ["witnesses outside the Skolem constructors and the native search universe", "transitive USE deps", "version components > 3 digits"],
    "assumptions": ["blocker state is ignored by intersects by definition"],
    "selector_only": False,
}


class Wit:
    """Skolem witness version: same interface as SymVersion for ref_cmp/ref_glob"""

    def __init__(self, comps, letter, suf, rev, revint=None, text=True):
        self.comps, self.letter, self.suf, self.rev = comps, letter, suf, rev
        self.revint = revint
        self._text = text

    @property
    def ver(self):
        parts = []
        for i, ds in enumerate(self.comps):
            if i:
                parts.append(".")
            parts.append(list(ds))
        if self.letter is not None:
            parts.append(self.letter)
        for kw, ds in self.suf:
            parts.append("_" + kw)
            parts.append(list(ds))
        return sstr(*parts)

    @property
    def fullver(self):
        if self.rev is None:
            return self.ver
        if not self._text:
            return None
        return sstr(self.ver, "-r", list(self.rev))


def _witnesses(E, other):
    """candidate versions derived from endpoint E (and the other endpoint's revision)"""
    out = []
    base = dict(comps=E.comps, letter=E.letter, suf=list(E.suf), rev=E.rev)
    out.append(Wit(**base))
    out.append(Wit(**dict(base, suf=base["suf"] + [("alpha", [])])))
    out.append(Wit(**dict(base, suf=base["suf"] + [("p", [])])))
    out.append(Wit(**dict(base, comps=list(E.comps) + [[z3.IntVal(48)]], letter=None, suf=[], rev=None)) if E.letter is None and not E.suf else Wit(**base))
    out.append(Wit(**dict(base, comps=list(E.comps) + [[z3.IntVal(57)]], letter=None, suf=[], rev=None)) if E.letter is None and not E.suf else Wit(**base))
    out.append(Wit(**dict(base, rev=None)))
    # revision arithmetic: E.rev + 1, other.rev + 1 on E's version
    ev = common.val(E.rev) if E.rev is not None else z3.IntVal(0)
    out.append(Wit(**dict(base, rev=RevInt(ev + 1)), text=False))
    if other is not None:
        ov = common.val(other.rev) if other.rev is not None else z3.IntVal(0)
        out.append(Wit(**dict(base, rev=RevInt(ov + 1)), text=False))
        out.append(Wit(**dict(base, rev=RevInt(ov)), text=False))
    return out


class RevInt:
    def __init__(self, e):
        self.intval = e


def _ref_ok(op, AV, W):
    """reference: does witness W satisfy `op AV`"""
    if op == "=*":
        wf = W.fullver
        if wf is None:
            # revision known only as an integer: a glob without revision sees "<ver>-r..." -> decided by the version text
            if AV.rev is not None:
                return z3.BoolVal(False)
            return atoms.ref_glob(AV.fullver, sstr(W.ver, "-r1"))
        return atoms.ref_glob(AV.fullver, wf)
    return ref_version_ok(op, AV, W)


class IntersectHarness(Harness):
    def shims(self):
        return shadow.bindings()

    def setup(self, eng):
        ob = self.ob
        self.V = {}
        inp = {}
        for n in ("x", "y"):
            if ob[n].get("op"):
                self.V[n] = SymVersion(eng, n, ob[n]["ver"])
                inp[n] = self.V[n].inp()
            for f in ("slot", "subslot", "repo"):
                if ob[n].get(f):
                    inp[n + f] = SymStr((eng.char(n + f, "01"),))
        if ob.get("pver") is not None:
            self.V["p"] = SymVersion(eng, "p", ob["pver"])
            inp["p"] = self.V["p"].inp()
            for f in ("slot", "subslot", "repo"):
                inp["p" + f] = SymStr((eng.char("p" + f, "01"),))
        return inp

    def _atom(self, n, inp, mod):
        spec = dict(self.ob[n])
        for f in ("slot", "subslot", "repo"):
            if spec.get(f):
                spec[f] = inp[n + f]
        return mod.atom(atom_text(spec, version=(inp[n]["ver"], inp[n]["rev"]) if n in inp else None))

    def body(self, inp):
        sym = core.ENG is not None
        mod = shadow.get()[0] if sym else real_atom
        with core.building():
            x, y = self._atom("x", inp, mod), self._atom("y", inp, mod)
            obs = {"xy": x.intersects(y), "yx": y.intersects(x)}
            if "p" in inp:
                pv = inp["p"]
                pkg = FakePkg(pv["ver"], pv["rev"], slot=inp["pslot"], subslot=inp["psubslot"], repo=inp["prepo"], use=self.ob.get("use", ()), iuse=self.ob.get("iuse", ()))
                x.restrictions, y.restrictions
                obs["mx"] = x.match(pkg)
                obs["my"] = y.match(pkg)
        return obs

    def _nonversion_compatible(self, inp):
        """reference: can one package satisfy the slot/sub-slot/repo/USE parts of both atoms"""
        ob = self.ob
        conds = []
        for f in ("slot", "subslot", "repo"):
            if ob["x"].get(f) and ob["y"].get(f):
                conds.append(core.eq_term(inp["x" + f], inp["y" + f]))
        ux, uy = ob["x"].get("use") or [], ob["y"].get("use") or []
        st = {}
        ok = True
        for t in list(ux) + list(uy):
            want = not t.startswith("-")
            fl = t.lstrip("-")
            if st.setdefault(fl, want) != want:
                ok = False
        conds.append(z3.BoolVal(ok))
        return z3.And(conds)

    def prop(self, inp, obs):
        ob = self.ob
        xy, yx = core.unwrap_bool(obs["xy"]), core.unwrap_bool(obs["yx"])
        conds = [xy == yx]
        if "mx" in obs:
            conds.append(z3.Implies(z3.And(core.unwrap_bool(obs["mx"]), core.unwrap_bool(obs["my"])), xy))
        else:
            conds.append(z3.Implies(xy, self._witnessed(inp)))
        return z3.And(conds)

    def _witnessed(self, inp):
        ob = self.ob
        nv = self._nonversion_compatible(inp)
        X, Y = self.V.get("x"), self.V.get("y")
        if X is None and Y is None:
            return nv
        cands = []
        if X is not None:
            cands += _witnesses(X, Y)
        if Y is not None:
            cands += _witnesses(Y, X)
        ors = []
        for w in cands:
            c = []
            if X is not None:
                c.append(_ref_ok(ob["x"]["op"], X, w))
            if Y is not None:
                c.append(_ref_ok(ob["y"]["op"], Y, w))
            ors.append(z3.And(c))
        return z3.And(nv, z3.Or(ors))

    def expected(self, inp, obs):
        return None

    def region(self, name, inp):
        if name == "glob-respelled":
            # a =* atom (textual prefix) against a version whose first component or revision carries leading zeros
            if "=*" not in (self.ob["x"].get("op"), self.ob["y"].get("op")):
                return False
            conds = []
            for n in ("x", "y"):
                V = self.V.get(n)
                if V is None:
                    continue
                if len(V.comps[0]) > 1:
                    conds.append(V.comps[0][0] == 48)
                if V.rev is not None:
                    conds.append(V.rev[0] == 48)
            return z3.Or(conds) if conds else False
        if name == "glob-respelled-trailing-zeros":
            # a =* atom against a version with a later component that starts and ends with 0 (1.00 == 1.0, 1.010 == 1.01)
            if "=*" not in (self.ob["x"].get("op"), self.ob["y"].get("op")):
                return False
            conds = []
            for n in ("x", "y"):
                V = self.V.get(n)
                if V is None:
                    continue
                for comp in V.comps[1:]:
                    if len(comp) > 1:
                        conds.append(z3.And(comp[0] == 48, comp[-1] == 48))
            return z3.Or(conds) if conds else False
        raise KeyError(name)


# ---------------------------------------------------------------- native witness search (fallback for the Skolem set)
def _perturb(v, r):
    """concrete versions around (ver, rev)"""
    out = set()
    revs = {"", "0", "1", "2", "9", "10", "11"}
    if r:
        ri = int(r)
        revs |= {str(ri), str(ri + 1), str(max(ri - 1, 0)), str(ri * 10), str(ri * 10 + 1)}
    bases = {v, v + "_alpha", v + "_alpha1", v + "_p", v + "_p1", v + "_pre", v + "_rc9", v + "_beta"}
    if v[-1].isdigit():
        bases |= {v + ".0", v + ".1", v + ".9", v + "a", v + "z", v + "0", v + "1", v + "9"}
        head = v.rstrip("0123456789")
        n = v[len(head):]
        if n:
            bases |= {head + str(int(n) + 1), head + str(max(int(n) - 1, 0)), head + n + "0"}
    if "_" in v:
        bases.add(v.split("_")[0])
    if "." in v:
        bases.add(v.rsplit(".", 1)[0])
    for b in bases:
        for rv in revs:
            out.add((b, rv))
    return out


def native_witness(ob, cinp):
    """search a package matching both concrete atoms with the real code"""
    H = IntersectHarness(ob)
    x, y = H._atom("x", cinp, real_atom), H._atom("y", cinp, real_atom)
    cands = {("1", ""), ("0", ""), ("999", "")}
    for n in ("x", "y"):
        if n in cinp:
            cands |= _perturb(cinp[n]["ver"], cinp[n]["rev"])
    flags = set()
    want = {}
    for a in (x, y):
        for t in a.use or ():
            fl = t.lstrip("-")
            flags.add(fl)
            want.setdefault(fl, not t.startswith("-"))
    use = [f for f, w in want.items() if w]
    slot = x.slot or y.slot or "0"
    subslot = x.subslot or y.subslot or "0"
    repo = x.repo_id or y.repo_id or "r"
    n = 0
    for v, r in sorted(cands):
        try:
            real_cpv.VersionedCPV("cat/pkg-" + v + ("-r" + r if r else ""))
        except Exception:
            continue
        n += 1
        pkg = FakePkg(v, r, slot=slot, subslot=subslot, repo=repo, use=use, iuse=sorted(flags))
        if x.match(pkg) and y.match(pkg):
            return (v, r), n
    return None, n


class WitnessAwareHarness(IntersectHarness):
    def run_custom(self, tier, regions):
        from sx.runner import run_sx

        res = run_sx(self, tier, regions)
        if res["status"] == "violated" and "p" not in self.V:
            cex = res["cex"]
            nat = cex["native"]
            if nat.get("xy") == nat.get("yx") and nat.get("xy") is True:
                # only the witness clause can have failed: search natively
                w, n = native_witness(self.ob, cex["cinp"])
                if w is not None:
                    res["status"] = "inconclusive"
                    res["reason"] = "Skolem witness set too small: native search found witness %s-r%s" % w
                else:
                    cex["expected"] = {"witness": "none among %d native candidates" % n}
        return res


def harness(ob):  # noqa: F811
    return WitnessAwareHarness(ob)


OPS = ("<", "<=", "=", "~", ">=", ">", "=*")
VPAIRS = [
    (shape([1]), shape([1])), (shape([1]), shape([2])), (shape([1, 1]), shape([1])), (shape([1], rev=1), shape([1], rev=1)), (shape([1]), shape([1], rev=1)),
    (shape([1], rev=1), shape([1], rev=2)), (shape([1], suf=[("alpha", 1)]), shape([1])), (shape([1, 2]), shape([1, 1])),
    (shape([1], letter=True), shape([1])), (shape([1], suf=[("p", 0)]), shape([1], suf=[("pre", 1)])), (shape([2]), shape([1, 1])), (shape([1, 1], rev=1), shape([1])),
    (shape([1], rev=2), shape([1], rev=1)), (shape([1, 1]), shape([1, 2])), (shape([1], suf=[("rc", 1)]), shape([1], suf=[("rc", 1)], rev=1)),
]
PSHAPES = [shape([1]), shape([2]), shape([1, 1]), shape([1], rev=1), shape([1], rev=2), shape([1], suf=[("alpha", 1)]), shape([1], letter=True), shape([1, 1], rev=1),
           shape([1], suf=[("p", 0)]), shape([1, 2]), shape([1], suf=[("pre", 1)], rev=1), shape([2], rev=1), shape([1, 1], suf=[("p", 1)]), shape([1, 1], letter=True)]
UNIVERSE = {}


def _norm_spec(op, ver, extra):
    s = dict(extra, op=op)
    if op:
        s["ver"] = dict(ver, rev=None) if op == "~" else ver
    return s


def obligations(tier, seed):
    rng = random.Random(seed)
    obs = []
    seen = set()
    vpairs = VPAIRS[:8] if tier == "quick" else VPAIRS
    pshapes = PSHAPES[:6] if tier == "quick" else PSHAPES
    menus = [({}, {}), ({"slot": "0"}, {"slot": "0"}), ({"slot": "0", "subslot": "0"}, {"slot": "0", "subslot": "0"}), ({"repo": "r"}, {"repo": "r"}), ({"slot": "0"}, {}),
             ({"use": ["a"]}, {"use": ["-a"]}), ({"use": ["a", "b"]}, {"use": ["b"]}), ({"use": ["-a"]}, {"use": ["-a", "b"]}), ({"use": ["a"], "slot": "0"}, {"repo": "r"}), ({"blk": "!"}, {})]

    def add(x, y, pver=None, **kw):
        ob = dict(x=x, y=y, pver=pver, **kw)
        vx = (shape_str(x["ver"]).split("-r") + [""])[:2] if x.get("op") else None
        vy = (shape_str(y["ver"]).split("-r") + [""])[:2] if y.get("op") else None
        ob["oid"] = "%s & %s%s" % (atom_text(x, version=vx), atom_text(y, version=vy), "" if pver is None else " p=" + shape_str(pver))
        if ob["oid"] not in seen:
            seen.add(ob["oid"])
            obs.append(ob)

    k = 0
    for ox, oy in itertools.product(OPS, repeat=2):
        for va, vb in vpairs:
            k += 1
            mx, my = menus[k % len(menus)] if k % 3 == 0 else ({}, {})
            x, y = _norm_spec(ox, va, mx), _norm_spec(oy, vb, my)
            add(x, y)  # symmetry + witness
            for p in pshapes:
                if tier == "quick" and (k + len(shape_str(p))) % 2:
                    continue
                add(x, y, p, use=["a", "b"], iuse=["a", "b"])
    for o in ("",) + OPS:
        for mx, my in menus:
            add(_norm_spec("", None, mx), _norm_spec(o, vpairs[1][0], my))
            add(_norm_spec(o, vpairs[1][0], mx), _norm_spec("", None, my))
            add(_norm_spec("", None, mx), _norm_spec(o, vpairs[1][0], my), pshapes[0], use=["b"], iuse=["a", "b"])
    UNIVERSE[tier] = {"op_pairs": 49, "shape_pairs": len(vpairs), "package_shapes": len(pshapes), "obligations": len(obs)}
    return obs
