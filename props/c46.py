"""C46 - distfile cleaning never deletes a distfile that must be kept."""
import io
import os
import shutil
import tempfile
from types import SimpleNamespace

import z3

from pkgcore.scripts import pclean
from pkgcore.test.misc import FakePkg, FakeRepo
from sx import core
from sx.runner import Harness
from sx.shims import patched

ID = "C46"
MANIFEST = {
    "technique": "symbolic execution (SX proxies + z3) of the real pclean option pipeline (_initialize_opts, _setup_shared_opts, _setup_file_opts, _setup_restrictions, _dist_validate_args) and the removal callables it returns, run against a real scratch distdir: the size and mtime of the files reported by os.stat inside pclean and the --size / --modified thresholds are unbounded symbolic integers, so the file filters are decided by the solver; which packages are installed, fetch-restricted, excluded by -x / -X, which targets are named and the three --exclude-* flags are symbolic selectors the engine forks over",
    "level_text": "Bounded symbolic model checking: a 6-package repository (two versions of one package, a package whose name extends another's, shared distfiles) over a 9-file distdir; for every combination of targets (5) x -x (3) x -X (3) x installed sets (4) x fetch-restricted sets (3) x the three exclude flags x size/mtime filters on/off, and for all integer sizes, mtimes and thresholds: every removed file is selected by the targets (all files when there is no target or exclusion), passes every file filter, and is not a distfile of an installed package (-I), of any repository package (-E), of a fetch-restricted package (-f) or of a package matched by an exclusion pattern; the files left in the scratch directory are exactly the others.",
    "level_note": "Selectors enumerate the repository-side menus; the filters are symbolic (two size classes and two mtime classes over the files). 'Selected by the targets' is judged by name family (distfile of, or named after, a targeted package), which is weaker than pclean's regex heuristics: only removals no reading of the heuristics allows are flagged.",
}
META = {
    "modules": ["pkgcore.scripts.pclean"],
    "functions": ["pclean._initialize_opts", "pclean._setup_shared_opts", "pclean._setup_file_opts", "pclean._setup_restrictions", "pclean._dist_validate_args", "pclean.Filters.run", "removal callables in namespace.remove"],
    "stubs": ["os.stat inside pclean reports symbolic st_size/st_mtime (everything else of os is real)", "namespace/domain objects carrying the attributes the pipeline reads", "pkgcore.test.misc.FakePkg/FakeRepo as packages and repositories"],
    "bounds": {"quick": "6 packages, 9 files, menus as in level_text; sizes/mtimes/thresholds unbounded Ints (2 classes each)", "thorough": "same (the space is swept completely in both tiers)"},
    "outside": ["pkgsets (-S)", "path targets (cwd inside a repository)", "the pkg/tmp/config subcommands", "_remove's output formatting and pretend mode"],
    "assumptions": [],
    "selector_only": False,
}

# package -> (distfiles, name family prefix)
PKGS = [
    ("cat/a-1", ["a-1.tar"]), ("cat/a-2", ["a-2.tar", "shared.tar"]), ("cat/b-1", ["b-1.tar", "shared.tar"]),
    ("cat/c-1", ["c-1.tar.gz"]), ("cat/a-x-1", ["a-x-1.tar"]), ("other/e-3", ["e-3.tar"]),
]
FILES = ["a-0.tar", "a-1.tar", "a-2.tar", "shared.tar", "b-1.tar", "c-1.tar.gz", "a-x-1.tar", "d-0.tar", "unrelated.bin"]
TARGETS = [[], ["cat/a"], ["cat/b"], ["=cat/a-1"], ["cat/a", "cat/c"]]
CLI_X = [None, ["cat/a"], ["cat/b"]]
FILE_X = [None, "cat/c", "cat/a\ncat/b"]
INSTALLED = [[], [("cat/a-1", ["a-1.tar"])], [("cat/b-1", ["b-1.tar", "shared.tar"]), ("cat/d-0", ["d-0.tar"])], [("cat/a-0", ["a-0.tar"]), ("cat/c-1", ["c-1.tar.gz"])]]
FETCH_R = [[], ["cat/b-1"], ["cat/a-2", "cat/a-x-1"]]


def mkpkg(cpv, distfiles, restrict=""):
    p = FakePkg(cpv, restrict=restrict)
    object.__setattr__(p, "distfiles", tuple(distfiles))
    return p


def key(cpv):
    return cpv.rsplit("-", 1)[0]


class FakeStat:
    def __init__(self, size, mtime):
        self.st_size, self.st_mtime = size, mtime


class FakeOs:
    """the os module as pclean sees it: stat() reports the (symbolic) size and mtime of the distfiles"""

    def __init__(self, stats):
        self._stats = stats

    def stat(self, path, *a, **k):
        s = self._stats.get(os.path.basename(path))
        return FakeStat(*s) if s is not None else os.stat(path, *a, **k)

    def __getattr__(self, n):
        return getattr(os, n)


class CleanHarness(Harness):
    def setup(self, eng):
        ob = self.ob
        inp = {"cli_x": eng.int("cli_x", 0, len(CLI_X) - 1), "file_x": eng.int("file_x", 0, len(FILE_X) - 1), "inst": eng.int("installed", 0, len(INSTALLED) - 1), "fetch": eng.int("fetch_restricted", 0, len(FETCH_R) - 1)}
        for o in ("excl_installed", "excl_exists", "excl_fetch"):
            inp[o] = eng.bool(o)
        inp["size"] = [eng.int("size0"), eng.int("size1")]
        inp["mtime"] = [eng.int("mtime0"), eng.int("mtime1")]
        inp["size_thr"], inp["mtime_thr"] = eng.int("size_threshold"), eng.int("modified_threshold")
        return inp

    def body(self, inp):
        ob = self.ob
        sel = {k: inp[k] for k in ("cli_x", "file_x", "inst", "fetch", "excl_installed", "excl_exists", "excl_fetch")}
        c = core.fix(sel) if core.ENG is not None else sel
        td = tempfile.mkdtemp(prefix="c46-")
        try:
            stats = {}
            for i, f in enumerate(FILES):
                with open(os.path.join(td, f), "w") as fh:
                    fh.write("x")
                stats[f] = (inp["size"][i % 2], inp["mtime"][(i // 2) % 2])
            fr = FETCH_R[c["fetch"]]
            pkgs = [mkpkg(cpv, d, "fetch" if cpv in fr else "") for cpv, d in PKGS]
            repo = FakeRepo(pkgs=pkgs)
            installed = FakeRepo(pkgs=[mkpkg(cpv, d) for cpv, d in INSTALLED[c["inst"]]])
            cli, fx = CLI_X[c["cli_x"]], FILE_X[c["file_x"]]
            ns = SimpleNamespace(
                domain=SimpleNamespace(distdir=td, all_installed_repos=installed, all_source_repos_raw=repo), config=SimpleNamespace(pkgset={}), repo=repo, targets=list(TARGETS[ob["targets"]]), pkgsets=None,
                excludes=list(cli) if cli is not None else None, exclude_file=io.StringIO(fx) if fx is not None else None,
                exclude_installed=c["excl_installed"], exclude_exists=c["excl_exists"], exclude_fetch_restricted=c["excl_fetch"],
                modified=inp["mtime_thr"] if ob["use_mtime"] else None, size=inp["size_thr"] if ob["use_size"] else None,
            )
            removed = []
            with patched((pclean, "os", FakeOs(stats))):
                # same order the argparser runs them in (parse priorities 10, 20, 20, 30, final check)
                pclean._initialize_opts(ns)
                pclean._setup_shared_opts(ns)
                pclean._setup_file_opts(ns)
                pclean._setup_restrictions(ns)
                pclean._dist_validate_args(None, ns)
                for func, path in ns.remove:
                    func(path)
                    removed.append(os.path.basename(path))
            left = sorted(os.listdir(td))
        finally:
            shutil.rmtree(td, ignore_errors=True)
        # ---- the specification
        excluded_keys = set(cli or []) | {x for x in (fx or "").split("\n") if x}
        targeted = TARGETS[ob["targets"]]

        def is_targeted(cpv):
            if key(cpv) in excluded_keys:
                return False
            if not targeted:
                return True
            return any((t.startswith("=") and t[1:] == cpv) or t == key(cpv) for t in targeted)

        has_restrict = bool(targeted or excluded_keys)
        protected = {}
        for cpv, d in PKGS:
            for f in d:
                if c["excl_exists"]:
                    protected.setdefault(f, []).append(f"distfile of existing {cpv} (-E)")
                if c["excl_fetch"] and cpv in fr:
                    protected.setdefault(f, []).append(f"distfile of fetch-restricted {cpv} (-f)")
                if key(cpv) in excluded_keys:
                    protected.setdefault(f, []).append(f"distfile of excluded {cpv}")
        if c["excl_installed"]:
            for cpv, d in INSTALLED[c["inst"]]:
                for f in d:
                    protected.setdefault(f, []).append(f"distfile of installed {cpv} (-I)")
        problems = []
        for f in removed:
            if f in protected:
                problems.append(f"removed {f}: {protected[f][0]}")
            if has_restrict:
                fam = [cpv for cpv, d in PKGS if is_targeted(cpv) and (f in d or f.startswith(key(cpv).split("/")[1] + "-"))]
                if not fam:
                    problems.append(f"removed {f}: not related to any targeted package")
        if sorted(set(FILES) - set(removed)) != left or len(set(removed)) != len(removed):
            problems.append(f"directory content {left} does not correspond to the removals {removed}")
        out = {"opts": {k: c[k] for k in ("excl_installed", "excl_exists", "excl_fetch")}, "targets": targeted, "x": cli, "X": fx, "installed": [p for p, _ in INSTALLED[c["inst"]]], "fetch_restricted": fr, "removed": removed, "left": left, "problems": problems}
        out["classes"] = {f: [i % 2, (i // 2) % 2] for i, f in enumerate(FILES) if f in removed}
        return out

    def prop(self, inp, obs):
        if obs["problems"]:
            return False
        conds = []
        for f, (sc, mc) in obs["classes"].items():
            if self.ob["use_size"]:
                conds.append(core.lift(inp["size"][sc]) < core.lift(inp["size_thr"]))
            if self.ob["use_mtime"]:
                conds.append(core.lift(inp["mtime"][mc]) < core.lift(inp["mtime_thr"]))
        return z3.And(conds) if conds else True


def harness(ob):
    return CleanHarness(ob)


UNIVERSE = {}


def obligations(tier, seed):
    obs = []
    for t in range(len(TARGETS)):
        for us in (False, True):
            for um in (False, True):
                obs.append({"oid": f"targets={TARGETS[t]}|size-filter={us}|modified-filter={um}", "targets": t, "use_size": us, "use_mtime": um, "max_paths": 2000000, "max_s": 2400})
    UNIVERSE[tier] = {"obligations": len(obs)}
    return obs
