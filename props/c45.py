"""C45 - security advisories flag exactly the vulnerable installed versions."""
import itertools
import random

import z3

from pkgcore.pkgsets import glsa as real_glsa
from sx import core, lower
from sx.core import SymBool, SymStr, sstr
from sx.runner import Harness
from sx.shims import sym_str

from . import atoms, common, shadow
from .atoms import FakePkg, ref_glob
from .common import SymVersion, ref_cmp, shape, shape_str

ID = "C45"
MANIFEST = {
    "technique": "symbolic execution (SX proxies + z3) of the real GlsaDirSet.generate_intersects_from_pkg_node / generate_restrict_from_range (AST-lowered shadow of pkgsets/glsa.py compiled from /repo/src on every run, so that version texts with symbolic digits flow through VersionedCPV parsing) and of the match() of the restriction tree they build, against a package with symbolic version digits, symbolic slot character and enumerated keywords; compared on every path with a reference evaluator of the GLSA range format written as a z3 term",
    "level_text": "Bounded symbolic model checking: for every enumerated advisory entry (1-2 vulnerable and 0-2 unaffected ranges over all operators lt/le/eq/ge/gt/rlt/rle/rge/rgt and eq-globs, with and without slot attributes, arch lists incl. '*') and package version shape, the solver proves for all version/revision digits and slot characters that the advisory restriction matches the package exactly when the GLSA format says it is affected. Bounded by the shape grammar and the entry generator.",
    "level_note": "Trusted: SX engine, lowering, shims, the GLSA reference (r-forms: same version and revision comparison; glob: version-component prefix; slot limits any range; unaffected ranges subtract; arch list must intersect keywords unless '*'). XML nodes are duck-typed objects with get()/findall()/text (lxml needs concrete strings); native replays use the real module with real lxml elements.",
}
META = {
    "modules": ["pkgcore.pkgsets.glsa", "pkgcore.ebuild.restricts", "pkgcore.ebuild.cpv", "pkgcore.restrictions.packages", "pkgcore.restrictions.boolean"],
    "functions": ["glsa.GlsaDirSet.generate_intersects_from_pkg_node", "glsa.GlsaDirSet.generate_restrict_from_range", "cpv.CPV.__init__ (shadow)", "restricts.VersionMatch/VersionGlobMatch/SlotDep match", "packages.KeyedAndRestriction/AndRestriction/OrRestriction match", "values.ContainmentMatch.match (keywords)"],
    "shims": ["shadow glsa/cpv modules: int/ord/str/isinstance/len/hash/bool; cpv regexes -> SymRegex"],
    "stubs": ["duck-typed XML nodes (get/findall/text)"],
    "bounds": {"quick": "entries: 10 range kinds x {none + 10 unaffected kinds} x slot placements x 4 version-shape triples (digits symbolic), 2-vulnerable and 2-unaffected samples, 5 arch/keyword configurations", "thorough": "all pairs of range kinds for 2 vulnerable x 2 unaffected, 10 shape triples"},
    "outside": ["malformed advisories (exceptions are logged and skipped by the iterator)", "version components > 3 digits", "more than 2+2 ranges per entry"],
    "assumptions": [],
    "selector_only": False,
}

OPS = ["lt", "le", "eq", "ge", "gt", "rlt", "rle", "rge", "rgt", "glob"]
_SH = {}


def sglsa():
    if "m" not in _SH:
        m = lower.shadow("pkgcore.pkgsets.glsa", shim_names=shadow.SHIMS)
        m.cpv = shadow.get()[1]
        _SH["m"] = m
    return _SH["m"]


class Node:
    def __init__(self, attrs, text=None, children=None):
        self.attrs, self.text, self.children = attrs, text, children or {}

    def get(self, k, d=None):
        return self.attrs.get(k, d)

    def findall(self, tag):
        return list(self.children.get(tag, ()))


class GlsaHarness(Harness):
    def shims(self):
        return shadow.bindings()

    def setup(self, eng):
        ob = self.ob
        self.V = {}
        inp = {"r": []}
        for i, r in enumerate(ob["ranges"]):
            V = SymVersion(eng, f"r{i}", r["ver"])
            self.V[i] = V
            d = {"ver": V.fullver if V.rev is not None else V.ver}
            if r.get("slot"):
                d["slot"] = SymStr((eng.char(f"rs{i}", "01"),))
            inp["r"].append(d)
        self.P = SymVersion(eng, "p", ob["pver"])
        inp["p"] = self.P.inp()
        inp["pslot"] = SymStr((eng.char("pslot", "01"),))
        return inp

    def _nodes(self, inp, mk=Node):
        ob = self.ob
        ch = {"vulnerable": [], "unaffected": []}
        for r, d in zip(ob["ranges"], inp["r"]):
            attrs = {"range": "eq" if r["op"] == "glob" else r["op"]}
            if "slot" in d:
                attrs["slot"] = d["slot"]
            text = d["ver"] + "*" if r["op"] == "glob" else d["ver"]
            ch[r["kind"]].append(mk(attrs, text))
        attrs = {"name": "cat/pkg"}
        if ob.get("arch") is not None:
            attrs["arch"] = ob["arch"]
        return mk(attrs, None, ch)

    def body(self, inp):
        ob = self.ob
        sym = core.ENG is not None
        pv = inp["p"]
        pkg = FakePkg(pv["ver"], pv["rev"], slot=inp["pslot"])
        pkg.keywords = tuple(ob.get("keywords", ("x86",)))
        if sym:
            mod = sglsa()
            node = self._nodes(inp)
        else:
            from lxml import etree

            mod = real_glsa

            def mk(attrs, text, children=None):
                e = etree.Element("x")
                for k, v in attrs.items():
                    e.set(k, v)
                e.text = text
                for tag, cs in (children or {}).items():
                    for c in cs:
                        c.tag = tag
                        e.append(c)
                return e

            node = self._nodes(inp, mk)
        g = object.__new__(mod.GlsaDirSet)
        with core.building():
            try:
                r = g.generate_intersects_from_pkg_node(node, tag="glsa(t)")
            except ValueError:
                return {"restriction": "ValueError", "match": None}
            if r is None:
                return {"restriction": None, "match": None}
            return {"restriction": "ok", "match": r.match(pkg)}

    def _range_ok(self, i, r, inp):
        V, P = self.V[i], self.P
        op = r["op"]
        if op == "glob":
            ok = ref_glob(V.fullver, P.fullver)
        elif op.startswith("r"):
            same = ref_cmp(P, V, with_rev=False) == 0
            pr = common.val(P.rev) if P.rev is not None else z3.IntVal(0)
            vr = common.val(V.rev) if V.rev is not None else z3.IntVal(0)
            ok = z3.And(same, {"rlt": pr < vr, "rle": pr <= vr, "rge": pr >= vr, "rgt": pr > vr}[op])
        else:
            c = ref_cmp(P, V)
            ok = {"lt": c < 0, "le": c <= 0, "eq": c == 0, "ge": c >= 0, "gt": c > 0}[op]
        if "slot" in inp["r"][i]:
            ok = z3.And(ok, core.eq_term(inp["r"][i]["slot"], inp["pslot"]))
        return ok

    def region(self, name, inp):
        if name == "glob-inside-component":
            conds = []
            for i, r in enumerate(self.ob["ranges"]):
                if r["op"] == "glob":
                    V = self.V[i]
                    conds.append(z3.And(atoms.glob_prefix(V.fullver, self.P.fullver), z3.Not(ref_glob(V.fullver, self.P.fullver))))
            return z3.Or(conds) if conds else False
        raise KeyError(name)

    def _invalid(self, i, r):
        """ranges the format rejects: rlt on a zero revision (empty set)"""
        V = self.V[i]
        if r["op"] == "rlt":
            return (common.val(V.rev) == 0) if V.rev is not None else z3.BoolVal(True)
        return z3.BoolVal(False)

    def prop(self, inp, obs):
        ob = self.ob
        invalid = z3.Or([self._invalid(i, r) for i, r in enumerate(ob["ranges"])])
        if obs["restriction"] == "ValueError":
            return invalid
        invalid = z3.BoolVal(False)  # an explicitly spelled "rlt ...-r0" may also be kept as an (empty) range
        vul = [self._range_ok(i, r, inp) for i, r in enumerate(ob["ranges"]) if r["kind"] == "vulnerable"]
        una = [self._range_ok(i, r, inp) for i, r in enumerate(ob["ranges"]) if r["kind"] == "unaffected"]
        affected = z3.And(z3.Or(vul), z3.Not(z3.Or(una)) if una else z3.BoolVal(True))
        arch = ob.get("arch")
        if arch is not None:
            al = arch.split()
            if al and "*" not in al:
                affected = z3.And(affected, z3.BoolVal(bool(set(al) & set(ob.get("keywords", ("x86",))))))
        if obs["restriction"] is None:
            return False
        return z3.And(z3.Not(invalid), core.unwrap_bool(obs["match"]) == affected)


def harness(ob):
    return GlsaHarness(ob)


UNIVERSE = {}
TRIPLES = [
    (shape([1]), shape([1]), shape([1])), (shape([1], rev=1), shape([1], rev=1), shape([1], rev=1)), (shape([1, 1]), shape([1]), shape([1, 1])), (shape([1]), shape([1, 1]), shape([1, 2])),
    (shape([1], rev=1), shape([1]), shape([1], rev=2)), (shape([2]), shape([1]), shape([2])), (shape([1]), shape([1], rev=1), shape([1], suf=[("p", 1)])), (shape([1, 1], rev=1), shape([1, 1]), shape([1, 1], rev=1)),
    (shape([1], suf=[("rc", 1)]), shape([1]), shape([1], suf=[("rc", 1)], rev=1)), (shape([1], rev=2), shape([1], rev=1), shape([1], rev=1)),
]


def obligations(tier, seed):
    rng = random.Random(seed)
    obs = []
    seen = set()
    triples = TRIPLES[:4] if tier == "quick" else TRIPLES

    def add(ranges, pver, **kw):
        ob = dict(ranges=ranges, pver=pver, **kw)
        ob["oid"] = "%s|p=%s|arch=%s|kw=%s" % (
            " ".join("%s:%s%s%s" % (r["kind"][0], r["op"], shape_str(r["ver"]), ":s" if r.get("slot") else "") for r in ranges), shape_str(pver), kw.get("arch"), ",".join(kw.get("keywords", ())))
        if ob["oid"] not in seen:
            seen.add(ob["oid"])
            obs.append(ob)

    k = 0
    for v_op in OPS:
        for u_op in [None] + OPS:
            for t in triples:
                k += 1
                slots = [(False, False), (True, False), (False, True), (True, True)][k % 4] if (k % 3 == 0) else (False, False)
                rs = [{"kind": "vulnerable", "op": v_op, "ver": t[0], "slot": slots[0]}]
                if u_op:
                    rs.append({"kind": "unaffected", "op": u_op, "ver": t[1], "slot": slots[1]})
                add(rs, t[2])
    pairs = list(itertools.product(OPS, repeat=2))
    rng.shuffle(pairs)
    for a, b in pairs[: 30 if tier == "quick" else 100]:
        t = triples[(len(a) + len(b)) % len(triples)]
        add([{"kind": "vulnerable", "op": a, "ver": t[0], "slot": False}, {"kind": "vulnerable", "op": b, "ver": t[1], "slot": True}], t[2])
        add([{"kind": "vulnerable", "op": "lt", "ver": t[2], "slot": False}, {"kind": "unaffected", "op": a, "ver": t[0], "slot": True}, {"kind": "unaffected", "op": b, "ver": t[1], "slot": False}], t[2])
    for arch, kws in (("x86", ("x86",)), ("x86 amd64", ("amd64",)), ("x86", ("amd64",)), ("*", ("amd64",)), ("", ("amd64",)), ("x86 *", ("arm",))):
        add([{"kind": "vulnerable", "op": "lt", "ver": shape([1]), "slot": False}], shape([1]), arch=arch, keywords=list(kws))
        add([{"kind": "vulnerable", "op": "ge", "ver": shape([1]), "slot": True}, {"kind": "unaffected", "op": "eq", "ver": shape([1]), "slot": False}], shape([1]), arch=arch, keywords=list(kws))
    UNIVERSE[tier] = {"obligations": len(obs)}
    return obs
