"""C19 - an interrupted merge never leaves a replaced file half-written."""
import errno
import os
import stat

from snakeoil import data_source

from pkgcore.fs import ops
from props import mergefs as M
from props.c18 import MENUS, SEL, phys
from sx import core
from sx.runner import Harness
from sx.shims import patched

ID = "C19"
MANIFEST = {
    "technique": "bounded model checking with solver-decided choice (SX engine): besides the image and root shapes of C18, the index of the filesystem-mutating operation at which the merge stops (mkdir, lchown, chmod, utime, symlink, mkfifo, link, unlink, rename and the data transfer, which stops after half of the bytes) and the kind of stop (process death = an exception nothing catches, or EIO = OSError raised by the operation) are symbolic selectors; the os module seen by pkgcore.fs.ops and the data transfer are wrapped to count operations and stop at the chosen one; the engine forks over every feasible combination, runs the real merge_contents on a real scratch root and compares the snapshot at the moment of the stop with the snapshots before the merge and after an undisturbed merge of a twin root",
    "level_text": "Bounded model checking, exhaustive within the bound: every image/root shape of C18 (one offset spelling) x every mutating operation index (0..27) x {crash, EIO} (quick: crash only, two /l shapes): every non-directory path that existed before holds either exactly its previous type, content, target, mode, ownership and mtime or exactly those of the completed merge; pre-existing directories are still directories with their mode; no path outside the contents set is modified, and the only extra names are '#new' siblings of contents paths. Selector-only; real code on real files.",
    "level_note": "selector-only harness (labelled as such). A stop is injected before the operation takes effect (for the data transfer: after half of the bytes are written and flushed). Power loss below the system-call level is outside.",
}
META = {
    "modules": ["pkgcore.fs.ops"],
    "functions": ["ops.merge_contents", "ops.copyfile ('#new' + rename)", "ops.do_link ('#new' + rename)", "ops.ensure_perms", "ops.mkdir"],
    "stubs": ["pkgcore.fs.ops.os wrapped (mutating calls counted, stop injected)", "ops.unlink_if_exists / ops.ensure_dirs wrapped likewise", "snakeoil.data_source.local_source.transfer_to_path wrapped (partial write at the stop)"],
    "bounds": {"quick": "crash only; /l in {absent, sym-to-file}; pre-existing /s = directory and /l = file fixed; operation index 0..27", "thorough": "crash: all shapes; EIO: pre-existing /s = directory and /l = file fixed"},
    "outside": ["a pre-existing dangling symlink in the way of a directory (unlink + mkdir is not atomic by design)", "torn writes below the system-call level", "device nodes"],
    "assumptions": [],
    "selector_only": True,
}

MAXOP = 27
MUTATING = ("mkdir", "lchown", "chmod", "utime", "symlink", "mkfifo", "link", "unlink", "rename", "mknod", "rmdir", "remove")


class Crash(BaseException):
    pass


class Counter:
    def __init__(self, stop_at, kind):
        self.n, self.stop_at, self.kind, self.hit, self.trace = 0, stop_at, kind, None, []

    def step(self, what, partial=None):
        """called before a mutating operation; returns normally when the operation may proceed"""
        i = self.n
        self.n += 1
        self.trace.append(what)
        if i == self.stop_at:
            self.hit = what
            if partial is not None:
                partial()
            if self.kind == "crash":
                raise Crash()
            raise OSError(errno.EIO, "injected I/O error")


class FaultyOs:
    def __init__(self, counter):
        self._c = counter

    def __getattr__(self, name):
        real = getattr(os, name)
        if name in MUTATING:
            c = self._c

            def wrapped(*a, **k):
                c.step(f"{name}({os.path.basename(str(a[0]))})")
                return real(*a, **k)

            return wrapped
        return real


def cmp_entry(a, b):
    """same type, content, target, mode, ownership and mtime"""
    ka = {k: v for k, v in a.items() if k != "ino"}
    kb = {k: v for k, v in b.items() if k != "ino"}
    return ka == kb


class CrashHarness(Harness):
    def setup(self, eng):
        fixed = ("pre_d", "new_l", "new_f") + (("pre_s", "pre_l") if self.ob.get("slim") else ())
        inp = {k: eng.int(k, 0, len(MENUS[k]) - 1) for k in SEL if k not in fixed}
        inp.update({k: self.ob.get(k, 1) for k in fixed})
        inp["stop_at"] = eng.int("stop_at", 0, MAXOP)
        return inp

    def body(self, inp):
        c = core.fix(inp) if core.ENG is not None else inp
        kind = self.ob["kind"]
        td = M.scratch()
        try:
            img, root, twin = os.path.join(td, "img"), os.path.join(td, "root"), os.path.join(td, "twin")
            M.build_image(img, c)
            M.build_root(root, c)
            M.build_root(twin, c)
            cset = M.scan_image(img)
            isnap = M.snapshot(img)
            before = M.snapshot(root)
            ops.merge_contents(M.scan_image(img), offset=twin)
            final = M.snapshot(twin)
            counter = Counter(c["stop_at"], kind)
            real_transfer = data_source.local_source.transfer_to_path

            def transfer(self_, path):
                def partial():
                    data = self_.bytes_fileobj().read()
                    with open(path, "wb") as fh:
                        fh.write(data[: len(data) // 2])

                counter.step(f"write({os.path.basename(path)})", partial)
                return real_transfer(self_, path)

            def unlink_if_exists(path):
                if os.path.lexists(path):
                    counter.step(f"unlink({os.path.basename(path)})")
                return ops_unlink(path)

            def ensure_dirs(path, *a, **k):
                if not os.path.exists(path):
                    counter.step(f"mkdir({os.path.basename(path)})")
                return ops_ensure(path, *a, **k)

            ops_unlink, ops_ensure = ops.unlink_if_exists, ops.ensure_dirs
            outcome = "completed"
            with patched((ops, "os", FaultyOs(counter)), (ops, "unlink_if_exists", unlink_if_exists), (ops, "ensure_dirs", ensure_dirs), (data_source.local_source, "transfer_to_path", transfer)):
                try:
                    ops.merge_contents(cset, offset=root)
                except Crash:
                    outcome = "crashed"
                except Exception as e:
                    outcome = f"raised {type(e).__name__}"
            after = M.snapshot(root)
        finally:
            M.cleanup(td)
        out = {"shape": {k: MENUS[k][c[k]] for k in SEL}, "kind": kind, "stop_at": c["stop_at"], "stopped_in": counter.hit, "operations": counter.trace, "outcome": outcome, "problems": []}
        if counter.hit is None:
            return out  # the merge has fewer operations than the chosen index: nothing was interrupted
        problems = out["problems"]
        owned = {phys(loc, c) for loc in isnap}
        dangling_dir = M.PRE_S[c["pre_s"]] == "dangling-symlink"
        for p, b in before.items():
            a = after.get(p)
            if p in owned:
                if p == "/s" and dangling_dir:
                    continue  # outside: unlink + mkdir of a dangling symlink in the way of a directory
                if a is None:
                    problems.append(f"{p}: existed before, gone at the stop ({counter.hit})")
                elif stat.S_ISDIR(b["type"]):
                    if not stat.S_ISDIR(a["type"]) or a["mode"] != b["mode"]:
                        problems.append(f"{p}: pre-existing directory altered at the stop ({counter.hit})")
                elif not (cmp_entry(a, b) or (p in final and cmp_entry(a, final[p]))):
                    
                    def differs(x):
                        return sorted(k for k in set(a) | set(x) if k != "ino" and a.get(k) != x.get(k))

                    # no values in the text: the mtime of a half-made file is the wall clock
                    problems.append(f"{p}: neither the previous state (differs in {differs(b)}) nor the new one (differs in {differs(final.get(p, {}))}) at the stop ({counter.hit})")
            else:
                if a is None:
                    problems.append(f"{p}: removed although not in the contents")
                    continue
                ka = {k: v for k, v in a.items() if not (k == "mtime" and stat.S_ISDIR(a["type"]))}
                kb = {k: v for k, v in b.items() if not (k == "mtime" and stat.S_ISDIR(b["type"]))}
                if ka != kb:
                    problems.append(f"{p}: modified although not in the contents ({counter.hit})")
        for p in after:
            if p not in before and p not in owned and not (p.endswith("#new") and p[:-4] in owned):
                problems.append(f"{p}: created although not in the contents")
        return out

    def prop(self, inp, obs):
        return not obs["problems"]


def harness(ob):
    return CrashHarness(ob)


UNIVERSE = {}


def obligations(tier, seed):
    obs = []
    for kind in (("crash",) if tier == "quick" else ("crash", "EIO")):
        for i in range(len(M.PRE_D)):
            for j in range(len(M.NEW_L)):
                if tier == "quick" and j in (1, 2):
                    continue
                for k in range(len(M.NEW_F)):
                    obs.append({"oid": f"{kind}|pre-existing /d={M.PRE_D[i]}|/l={M.NEW_L[j]}|/d/f={M.NEW_F[k]}", "kind": kind, "pre_d": i, "new_l": j, "new_f": k, "slim": tier == "quick" or kind == "EIO", "max_paths": 500000, "max_s": 2400})
    UNIVERSE[tier] = {"obligations": len(obs)}
    return obs
