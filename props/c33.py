"""C33 - install helpers create exactly the requested image entries."""
import os
import shutil
import stat
import tempfile
import types

from pkgcore.ebuild import ebd_ipc
from pkgcore.ebuild.eapi import get_eapi
from sx import core
from sx.runner import Harness

ID = "C33"
MANIFEST = {
    "technique": "bounded model checking with solver-decided choice (SX engine): the helper request (doins, doexe, dobin, dodoc, dodir, keepdir, dosym incl. -r, dohard, doman incl. language detection and -i18n, domo, dohtml, each with the option strings the shell side passes), the EAPI and the nonfatal flag are symbolic selectors; the engine forks over every feasible combination, runs the real IpcCommand.__call__ of the helper class against a scripted daemon channel and a real scratch image directory, and compares the image snapshot (paths, types, modes, ownership, contents, link targets, inode sharing) and the reply status with a hand-written table of what PMS prescribes for that request",
    "level_text": "Bounded model checking, exhaustive within the bound (35 requests x EAPI 6/7/8 x nonfatal on/off): the image holds exactly the entries PMS prescribes (no more, no fewer non-directory entries; directories only the requested ones and the parents of entries) with the requested modes; requests PMS forbids (a directory given to doins/dodoc/dohtml without -r, dosym to a name ending in a slash, dosym -r before EAPI 8 or with a relative target, man pages without a usable section) are answered with a failure status and create nothing; dosym -r creates the relative link that resolves, from the link's directory, to the absolute target. Selector-only; real code on real files.",
    "level_note": "selector-only harness (labelled as such). The expectation table is the trusted part (one line per request). The --dest/--insoptions/--diroptions strings are what the shell wrappers of data/lib/pkgcore/ebd/helpers pass; the shell side itself (into/insinto state, banned-helper checks) is outside.",
}
META = {
    "modules": ["pkgcore.ebuild.ebd_ipc", "pkgcore.ebuild.misc"],
    "functions": ["ebd_ipc.IpcCommand.__call__", "ebd_ipc._InstallWrapper.run/_install/_install_dirs/_install_symlinks/_install_from_dirs/_set_attributes", "ebd_ipc.Doins/Dodoc/Doexe/Dobin/Dodir/Keepdir/Dosym/Dohard/Doman/Domo/Dohtml", "misc.get_relative_dosym_target"],
    "stubs": ["scripted daemon channel (FakeEbd)", "package object carrying eapi/category/PN/slot/PF/restrict"],
    "bounds": {"quick": "35 requests, EAPI 6/7/8, nonfatal on/off", "thorough": "same (the space is swept completely in both tiers)"},
    "outside": ["the shell wrappers (into/insinto/exeinto state, banned helpers per EAPI)", "the external install(1) fallback for unknown options (C32)", "doheader/doconfd/doenvd/doinitd/newins (thin wrappers of the same classes)"],
    "assumptions": [],
    "selector_only": True,
}

EAPIS = ["6", "7", "8"]
REJ = "rejected"
F, S, D = "file", "sym", "dir"


def table(eapi):
    """request -> expected entries relative to the image (non-directory entries exactly; listed directories must exist)"""
    e8 = int(eapi) >= 8
    ins = "--dest=/usr/share/p --insoptions=-m0644"
    man = "--dest=/usr/share/man --insoptions=-m0644"
    doc = "--dest=/usr/share/doc/pf --insoptions=-m0644"
    sub = {"/usr/share/p/sub/emptydir": (D, None), "/usr/share/p/sub/deep/spool": (D, None), "/usr/share/p/sub/c.txt": (F, 0o644, "C"), "/usr/share/p/sub/deep/d.txt": (F, 0o644, "D"), "/usr/share/p/sub/link": (S, "c.txt"), "/usr/share/p/sub/dlink": (S, "deep")}
    docsub = {k.replace("/usr/share/p/", "/usr/share/doc/pf/"): v for k, v in sub.items()}
    return [
        ("Doins", ins, ["a.txt"], {"/usr/share/p/a.txt": (F, 0o644, "A")}),
        ("Doins", ins, ["a.txt", "b.sh"], {"/usr/share/p/a.txt": (F, 0o644, "A"), "/usr/share/p/b.sh": (F, 0o644, "#!/bin/sh\n")}),
        ("Doins", ins, ["sub"], REJ),
        ("Doins", ins, ["a.txt", "sub"], REJ),
        ("Doins", ins, ["-r", "sub"], sub),
        ("Doins", ins, ["-r", "sub", "a.txt"], dict(sub, **{"/usr/share/p/a.txt": (F, 0o644, "A")})),
        ("Doins", ins, ["missing.txt"], REJ),
        ("Doins", "--dest=/usr/share/p --insoptions=-m0000", ["a.txt"], {"/usr/share/p/a.txt": (F, 0, "A")}),
        ("Dodir", "--diroptions=-m0", ["/var/lib/locked"], {"/var/lib/locked": (D, 0)}),
        ("Doexe", "--dest=/usr/libexec/p --insoptions=-m0755", ["b.sh", "a.txt"], {"/usr/libexec/p/b.sh": (F, 0o755, "#!/bin/sh\n"), "/usr/libexec/p/a.txt": (F, 0o755, "A")}),
        ("Dobin", "--dest=/usr/bin", ["b.sh"], {"/usr/bin/b.sh": (F, 0o755, "#!/bin/sh\n")}),
        ("Dosbin", "--dest=/usr/sbin", ["b.sh"], {"/usr/sbin/b.sh": (F, 0o755, "#!/bin/sh\n")}),
        ("Dodir", "--diroptions=-m0750", ["/var/lib/p", "/etc/p.d"], {"/var/lib/p": (D, 0o750), "/etc/p.d": (D, 0o750)}),
        ("Keepdir", "--diroptions=-m0755", ["/var/empty"], {"/var/empty": (D, 0o755), "/var/empty/.keep_cat_pn-0": (F, None, "")}),
        ("Dosym", "", ["/usr/bin/tool", "/usr/bin/alias"], {"/usr/bin/alias": (S, "/usr/bin/tool")}),
        ("Dosym", "", ["../bin/tool", "/usr/lib/rel"], {"/usr/lib/rel": (S, "../bin/tool")}),
        ("Dosym", "", ["-r", "/usr/bin/tool", "/usr/share/p/alias"], {"/usr/share/p/alias": (S, "../../bin/tool")} if e8 else REJ),
        ("Dosym", "", ["-r", "/usr/bin/tool", "/usr/bin/sibling"], {"/usr/bin/sibling": (S, "tool")} if e8 else REJ),
        ("Dosym", "", ["-r", "/opt/x/y", "/z"], {"/z": (S, "opt/x/y")} if e8 else REJ),
        ("Dosym", "", ["/usr/bin/tool", "/usr/share/newdir/"], REJ),
        ("Dosym", "", ["-r", "usr/bin/tool", "/usr/x"], REJ),
        ("Dosym", "", ["/usr/bin/tool"], REJ),
        ("Dohard", "", ["usr/bin/tool", "/usr/bin/hard"], {"/usr/bin/hard": ("hardlink", "/usr/bin/tool")}),
        ("Doman", man, ["foo.1"], {"/usr/share/man/man1/foo.1": (F, 0o644, "M")}),
        ("Doman", man, ["foo.de.1"], {"/usr/share/man/de/man1/foo.1": (F, 0o644, "Mde")}),
        ("Doman", man, ["bar.3.gz", "foo.1"], {"/usr/share/man/man3/bar.3.gz": (F, 0o644, "Mgz"), "/usr/share/man/man1/foo.1": (F, 0o644, "M")}),
        ("Doman", man, ["nosec"], REJ),
        ("Doman", man, ["odd.x1"], REJ),
        ("Doman", man, ["-i18n=fr", "foo.1"], {"/usr/share/man/fr/man1/foo.1": (F, 0o644, "M")}),
        ("Domo", "--dest=/usr/share/locale --insoptions=-m0644", ["de.mo"], {"/usr/share/locale/de/LC_MESSAGES/pn.mo": (F, 0o644, "MO")}),
        ("Dodoc", doc, ["a.txt"], {"/usr/share/doc/pf/a.txt": (F, 0o644, "A")}),
        ("Dodoc", doc, ["sub"], REJ),
        ("Dodoc", doc, ["-r", "sub"], docsub),
        ("Dohtml", "--dest=/usr/share/doc/pf/html --insoptions=-m0644", ["index.html", "a.txt"], {"/usr/share/doc/pf/html/index.html": (F, 0o644, "<html/>")}),
        ("Dohtml", "--dest=/usr/share/doc/pf/html --insoptions=-m0644", ["sub"], REJ),
    ]


NREQ = len(table("8"))


class FakeEbd:
    def __init__(self, lines):
        self.lines, self.written = list(lines), []

    def read(self):
        return self.lines.pop(0) + "\n"

    def write(self, data, **kw):
        self.written.append(data)


class Observer:
    def write(self, *a, **k):
        pass

    warn = info = error = write

    def flush(self):
        pass


def populate(work, ed):
    def w(p, data, mode=0o644):
        os.makedirs(os.path.dirname(p), exist_ok=True)
        with open(p, "w") as f:
            f.write(data)
        os.chmod(p, mode)

    w(os.path.join(work, "a.txt"), "A", 0o600)
    w(os.path.join(work, "b.sh"), "#!/bin/sh\n", 0o700)
    w(os.path.join(work, "sub/c.txt"), "C")
    w(os.path.join(work, "sub/deep/d.txt"), "D")
    os.makedirs(os.path.join(work, "sub/emptydir"))
    os.makedirs(os.path.join(work, "sub/deep/spool"))
    os.symlink("c.txt", os.path.join(work, "sub/link"))
    os.symlink("deep", os.path.join(work, "sub/dlink"))
    for n, d in (("foo.1", "M"), ("foo.de.1", "Mde"), ("bar.3.gz", "Mgz"), ("nosec", "x"), ("odd.x1", "x"), ("de.mo", "MO"), ("index.html", "<html/>")):
        w(os.path.join(work, n), d)
    w(os.path.join(ed, "usr/bin/tool"), "TOOL", 0o755)


def snapshot(ed):
    out = {}
    for dp, dn, fn in os.walk(ed):
        for n in dn + fn:
            p = os.path.join(dp, n)
            st = os.lstat(p)
            rel = "/" + os.path.relpath(p, ed)
            if stat.S_ISLNK(st.st_mode):
                out[rel] = (S, os.readlink(p))
            elif stat.S_ISDIR(st.st_mode):
                out[rel] = (D, stat.S_IMODE(st.st_mode))
            else:
                with open(p) as f:
                    out[rel] = (F, stat.S_IMODE(st.st_mode), f.read(), (st.st_dev, st.st_ino), st.st_uid, st.st_gid)
    return out


class HelperHarness(Harness):
    active = frozenset()

    def region(self, name, inp):
        self.active = set(self.active) | {name}
        return False

    def setup(self, eng):
        return {"req": eng.int("request", self.ob["lo"], self.ob["hi"]), "nonfatal": eng.bool("nonfatal")}

    def body(self, inp):
        c = core.fix(inp) if core.ENG is not None else inp
        eapi = self.ob["eapi"]
        cls, options, args, want = table(eapi)[c["req"]]
        td = os.path.realpath(tempfile.mkdtemp(prefix="c33-"))
        try:
            work, ed = os.path.join(td, "work"), os.path.join(td, "image") + "/"
            populate(work, ed)
            before = snapshot(ed)
            pkg = types.SimpleNamespace(eapi=get_eapi(eapi), category="cat", PN="pn", slot="0", PF="pf", restrict=())
            op = types.SimpleNamespace(pkg=pkg, observer=Observer(), ED=ed)
            ebd = FakeEbd(["true" if c["nonfatal"] else "false", work, "install", options, "\0".join(args)])
            reply = []
            try:
                getattr(ebd_ipc, cls)(op)(ebd)
            except ebd_ipc.IpcError as e:
                reply.append(e.ret)
            reply = [str(x) for x in ebd.written] + [str(x) for x in reply]
            status = reply[0].split("\x07")[0] if reply else None
            after = snapshot(ed)
        finally:
            shutil.rmtree(td, ignore_errors=True)
        problems = []
        new = {p: v for p, v in after.items() if p not in before or before[p] != v}
        if want == REJ:
            if status == "0":
                problems.append("accepted although PMS forbids the request")
            if any(v[0] != D for v in new.values()):
                problems.append(f"a refused request left entries behind: {sorted(p for p, v in new.items() if v[0] != D)}")
        else:
            if status != "0":
                problems.append(f"refused (status {status!r})")
            else:
                for p, w in want.items():
                    a = after.get(p)
                    if a is None:
                        problems.append(f"{p}: not created")
                    elif w[0] == "hardlink":
                        if a[0] != F or a[3] != after[w[1]][3]:
                            problems.append(f"{p}: not a hard link to {w[1]}")
                    elif w[0] == S:
                        if a[:2] != w:
                            problems.append(f"{p}: {a[:2]} instead of {w}")
                    elif w[0] == D:
                        if a[0] != D or (w[1] is not None and a[1] != w[1]):
                            problems.append(f"{p}: {a} instead of directory mode {w[1]}")
                    else:
                        if a[0] != F or (w[1] is not None and a[1] != w[1]) or a[2] != w[2]:
                            problems.append(f"{p}: {(a[0], oct(a[1]) if a[0] != S else a[1], a[2] if a[0] == F else None)} instead of {(w[0], oct(w[1]) if w[1] is not None else None, w[2])}")
                        if cls in ("Dobin", "Dosbin") and a[0] == F and (a[4], a[5]) != (0, 0):
                            problems.append(f"{p}: owner {a[4]}:{a[5]} instead of root")
                for p, v in new.items():
                    if v[0] != D and p not in want:
                        problems.append(f"{p}: created although not requested")
                    if v[0] == D and p not in want and not any(q.startswith(p + "/") for q in want):
                        problems.append(f"{p}: directory created although nothing requested lives there")
        return {"helper": cls, "options": options, "args": args, "eapi": eapi, "nonfatal": c["nonfatal"], "status": status, "problems": problems}

    def prop(self, inp, obs):
        return not obs["problems"]


def harness(ob):
    return HelperHarness(ob)


UNIVERSE = {}


def obligations(tier, seed):
    obs = []
    for e in EAPIS:
        for lo in range(0, NREQ, 6):
            obs.append({"oid": f"EAPI {e}|requests {lo}..{min(lo + 5, NREQ - 1)}", "eapi": e, "lo": lo, "hi": min(lo + 5, NREQ - 1), "max_paths": 10000, "max_s": 1200})
    UNIVERSE[tier] = {"requests": NREQ * len(EAPIS) * 2}
    return obs
