"""C41 - parallel map processes every item exactly once."""
import threading as real_threading
from collections import deque

import z3

from pkgcore.util import thread_pool
from sx import core
from sx.runner import Harness
from sx.shims import patched

ID = "C41"
MANIFEST = {
    "technique": "bounded model checking of thread schedules with solver-decided choice (SX engine): the threading and queue modules as seen by pkgcore.util.thread_pool are replaced by gated versions (Thread, Queue, Event) under a deterministic scheduler in which exactly one thread runs at a time and every queue operation, thread start, join and unit of worker progress is a scheduling point; which thread continues at each point is a sequence of solver-chosen integers (at most two pre-emptions per run, every forced switch free), so the schedule is a symbolic input; the engine forks over every feasible schedule for every item count, thread count and worker result kind, runs the real map_async under it and compares the multiset of processed items and the returned results with the specification; a state in which no thread can run is reported as a deadlock",
    "level_text": "Bounded model checking, exhaustive within the bound (0-3 items x 1-3 requested threads or none requested x 3 worker result kinds x sized / unsized iterables x an item that is None or not x every schedule with at most two pre-emptions over the first 12 (quick) / 24 (thorough) scheduling points): the worker is called on each item exactly once across the pool, every non-empty result is returned exactly once (generator results flattened), no run deadlocks, and all threads have ended when map_async returns. Selector-only in the data; the schedule is the solver-chosen variable.",
    "level_note": "The gated primitives replace the C-level ones: what is explored is the interleaving of the operations map_async and its workers perform, at the granularity of those operations (sequentially consistent, no pre-emption inside a single queue operation).",
}
META = {
    "modules": ["pkgcore.util.thread_pool"],
    "functions": ["thread_pool.map_async", "thread_pool.reclaim_threads"],
    "stubs": ["threading.Thread / threading.Event / queue.Queue inside pkgcore.util.thread_pool (gated versions under a deterministic scheduler)", "cpu_count inside pkgcore.util.thread_pool (returns 2; used when no thread count is given)"],
    "bounds": {"quick": "items 0..3, threads 1..3, at most 2 pre-emptions within the first 12 scheduling points", "thorough": "first 24 scheduling points, 3 pre-emptions for 2 threads"},
    "outside": ["more than 3 threads / 3 items", "pre-emption inside a single queue or deque operation (the C-level primitives are atomic under the GIL)", "KeyboardInterrupt delivery", "threads=0 with a non-empty unsized iterable (nobody to do the work; map_async returns an empty result)"],
    "assumptions": ["queue.Queue, deque.append/extend and threading.Event are linearizable"],
    "selector_only": False,
}

NDEC = 24
KINDS = ["item", "none-for-odd", "generator"]


class Deadlock(Exception):
    pass


class Sched:
    """one thread runs at a time; `decisions` picks who continues at each scheduling point"""

    def __init__(self, decisions):
        self.decisions, self.di = list(decisions), 0
        self.threads = []  # Gated objects in creation order; index 0 is the main thread
        self.lock = real_threading.Lock()
        self.dead = False
        self.points = 0

    def register(self, g):
        self.threads.append(g)

    def runnable(self, g):
        return g.started and not g.finished and (g.waiting_for is None or g.waiting_for())

    def pick(self, cur):
        cands = [g for g in self.threads if self.runnable(g)]
        if not cands:
            if all(g.finished or not g.started for g in self.threads):
                return None
            self.dead = True
            for g in self.threads:
                g.go.set()
            raise Deadlock("no thread can run: " + ", ".join(f"{g.name} waits" for g in self.threads if g.started and not g.finished))
        if len(cands) == 1:
            return cands[0]
        d = self.decisions[self.di] if self.di < len(self.decisions) else 0
        self.di += 1
        self.points += 1
        if cur in cands:
            order = [cur] + [g for g in cands if g is not cur]
        else:
            order = cands
        return order[d % len(order)]

    def decide(self):
        """one more solver-chosen bit (used for bounded waits that may expire)"""
        d = self.decisions[self.di] if self.di < len(self.decisions) else 0
        self.di += 1
        self.points += 1
        return bool(d)

    def switch(self, cur):
        """called by the running thread at a scheduling point"""
        nxt = self.pick(cur)
        if nxt is None or nxt is cur:
            return
        cur.go.clear()
        nxt.go.set()
        cur.go.wait(30)
        if self.dead:
            raise Deadlock("deadlock detected elsewhere")
        if not cur.go.is_set():
            raise Deadlock(f"{cur.name} was never scheduled again")

    def finish(self, cur):
        cur.finished = True
        nxt = self.pick(cur)
        if nxt is not None:
            nxt.go.set()


class Gated:
    def __init__(self, sched, name):
        self.sched, self.name = sched, name
        self.go = real_threading.Event()
        self.started = self.finished = False
        self.waiting_for = None
        sched.register(self)


CUR = real_threading.local()


def me():
    return CUR.g


def point():
    g = me()
    g.sched.switch(g)


def wait_until(pred):
    g = me()
    while not pred():
        g.waiting_for = pred
        try:
            g.sched.switch(g)
        finally:
            g.waiting_for = None


def fake_modules(sched):
    class Thread(Gated):
        def __init__(self, target=None, args=(), kwargs=None):
            super().__init__(sched, f"worker{len(sched.threads)}")
            self.target, self.args, self.kwargs = target, args, kwargs or {}
            self.error = None

        def _run(self):
            CUR.g = self
            self.go.wait(30)
            try:
                if not sched.dead:
                    self.target(*self.args, **self.kwargs)
            except Deadlock:
                pass
            except BaseException as e:  # noqa: BLE001 - reported through join, like a real thread would print it
                self.error = e
            finally:
                try:
                    sched.finish(self)
                except Deadlock:
                    pass

        def start(self):
            self.os_thread = real_threading.Thread(target=self._run, daemon=True)
            self.started = True
            self.os_thread.start()
            point()

        def join(self, timeout=None):
            wait_until(lambda: self.finished)
            self.os_thread.join(5)

    class Queue:
        def __init__(self, maxsize=0):
            self.items = deque()

        def put(self, x, block=True, timeout=None):
            point()
            self.items.append(x)

        def get(self, block=True, timeout=None):
            if (timeout is not None or not block) and not self.items:
                # a bounded wait on an empty queue may expire before the producer runs: a scheduling decision
                if not block or sched.decide():
                    raise Empty()
            wait_until(lambda: bool(self.items))
            point()
            wait_until(lambda: bool(self.items))
            return self.items.popleft()

    class Empty(Exception):
        pass

    class Event:
        def __init__(self):
            self.flag = False

        def set(self):
            self.flag = True

        def clear(self):
            self.flag = False

        def is_set(self):
            return self.flag

        isSet = is_set

    import types

    return types.SimpleNamespace(Thread=Thread, Event=Event), types.SimpleNamespace(Queue=Queue, Empty=Empty)


class Unsized:
    def __init__(self, items):
        self.items = items

    def __iter__(self):
        return iter(self.items)


class PoolHarness(Harness):
    def setup(self, eng):
        ob = self.ob
        dec = [eng.int(f"d{i}", 0, 2) for i in range(ob["ndec"])]
        eng.assume(z3.Sum([z3.If(d.e != 0, 1, 0) for d in dec]) <= ob["preempt"])
        return {"dec": dec, "kind": eng.int("result_kind", 0, len(KINDS) - 1), "sized": eng.bool("iterable_has_len"), "none_item": eng.bool("an_item_is_None")}

    def body(self, inp):
        ob = self.ob
        c = core.fix(inp) if core.ENG is not None else inp
        n, t, kind = ob["items"], ob["threads"], KINDS[c["kind"]]
        sched = Sched(c["dec"])
        main = Gated(sched, "main")
        main.started = True
        main.go.set()
        CUR.g = main
        processed = []

        def worker(items):
            got = []
            for it in items:
                point()
                processed.append(it)
                got.append(it)
            if kind == "item":
                return got or None
            if kind == "none-for-odd":
                return [x for x in got if x is None or x % 2 == 0] or None
            return (("r", x) for x in got)

        threading_mod, queue_mod = fake_modules(sched)
        items = list(range(n))
        if c.get("none_item") and n:
            items[min(1, n - 1)] = None  # an item that looks like "nothing"
        out = {"items": n, "none_item": bool(c.get("none_item")), "threads": t, "kind": kind, "sized": c["sized"], "problems": []}
        try:
            with patched((thread_pool, "threading", threading_mod), (thread_pool, "queue", queue_mod), (thread_pool, "cpu_count", lambda: 2)):
                kw = {} if t is None else {"threads": t}  # no thread count given: one thread per (stubbed: 2) CPU
                results = list(thread_pool.map_async(items if c["sized"] else Unsized(items), worker, **kw))
        except Deadlock as e:
            out["problems"].append(f"deadlock: {e}")
            results = None
        finally:
            sched.dead = True
            for g in sched.threads:
                g.go.set()
        out["scheduling_points"] = sched.points
        if results is None:
            return out
        key = lambda x: (-1 if x is None else x) if not isinstance(x, tuple) else (-1 if x[1] is None else x[1])
        if sorted(processed, key=key) != sorted(items, key=key):
            out["problems"].append(f"processed {sorted(processed, key=key)} instead of each of {sorted(items, key=key)} exactly once")
        import types

        if any(isinstance(r, types.GeneratorType) for r in results):
            out["problems"].append("a generator result was returned as an object instead of its items")
            return out
        if kind != "generator" and not all(isinstance(r, list) for r in results):
            out["problems"].append(f"results hold {[type(r).__name__ for r in results]} instead of the workers' lists")
            return out
        if kind == "item":
            want = sorted(items, key=key)
            flat = sorted((x for r in results for x in r), key=key)
        elif kind == "none-for-odd":
            want = sorted((x for x in items if x is None or x % 2 == 0), key=key)
            flat = sorted((x for r in results for x in r), key=key)
        else:
            want = sorted((("r", x) for x in items), key=key)
            flat = sorted(results, key=key)
        if flat != want:
            out["problems"].append(f"results {flat} instead of {want}")
        alive = [g.name for g in sched.threads[1:] if g.started and not g.finished]
        if alive:
            out["problems"].append(f"threads still running after map_async returned: {alive}")
        return out

    def prop(self, inp, obs):
        return not obs["problems"]


def harness(ob):
    return PoolHarness(ob)


UNIVERSE = {}


def obligations(tier, seed):
    obs = []
    for n in range(0, 4):
        for t in range(1, 4):
            pre = 3 if tier != "quick" and t == 2 else 2
            obs.append({"oid": f"{n} items|{t} threads|<={pre} pre-emptions", "items": n, "threads": t, "preempt": pre, "ndec": 12 if tier == "quick" else NDEC, "max_paths": 400000, "max_s": 2400})
    for n in (0, 2, 3):
        obs.append({"oid": f"{n} items|thread count not given (2 CPUs)|<=2 pre-emptions", "items": n, "threads": None, "preempt": 2, "ndec": 12 if tier == "quick" else NDEC, "max_paths": 400000, "max_s": 2400})
    UNIVERSE[tier] = {"obligations": len(obs)}
    return obs
