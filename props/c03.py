"""C03 - atom acceptance equals the PMS grammar per EAPI; accepted atoms round-trip."""
import itertools
import random
import re

import z3

from pkgcore.ebuild import atom as real_atom
from pkgcore.ebuild import errors
from sx import core
from sx.core import SymStr, sstr
from sx.runner import Harness

from . import shadow

ID = "C03"
MANIFEST = {
    "technique": "symbolic execution (SX proxies + z3) of the real atom parser (AST-lowered shadow of atom.py and cpv.py compiled from /repo/src on every run, regexes through the symbolic regex matcher) on atom texts derived from grammar-generated valid atoms by a single edit (replace / insert at an enumerated position) whose character is one symbolic printable ASCII character; on every path the accept/reject decision is compared by the solver with a PMS recogniser (a concrete reference evaluated for all 94 characters and folded into a z3 term over the character); accepted atoms are re-parsed from their str() and compared",
    "level_text": "Bounded symbolic model checking of the parser: for every base atom of the generator (blockers, operators, multi-hyphen names, versions with letters/suffixes/revisions, slots, sub-slots, slot operators, repository ids, USE deps with defaults and conditionals), every edit position and EAPI in {none, 0, 1, 2, 4, 5, 8}, the solver proves for all 94 printable characters that the real parser accepts exactly when the PMS grammar for that EAPI does; for accepted texts atom(str(a)) == a with equal str(). Bounded by the base-atom generator and to single-character edits.",
    "level_note": "Trusted: SX engine, lowering, SymRegex, my PMS recogniser (validated first against the accept/reject expectations of the repository's own tests/ebuild/test_atom.py lists via the concrete differential of the shadow module). Deletions are covered as concrete variants. A model where the real parser accepts and the reference rejects is triaged as a reference bug before it may become a finding.",
}
META = {
    "modules": ["pkgcore.ebuild.atom", "pkgcore.ebuild.cpv", "pkgcore.ebuild.eapi"],
    "functions": ["atom.atom.__init__ (shadow-lowered)", "atom.atom.__str__", "cpv.CPV.__init__ (shadow-lowered)", "cpv.isvalid_pkg_name / isvalid_rev / isvalid_version_re / isvalid_cat_re", "eapi option lookups (concrete)"],
    "shims": ["shadow modules: int/ord/str/isinstance/len/hash/bool", "cpv regexes and eapi._valid_use_flag -> SymRegex", "atom.valid_slot_chars/valid_repo_chars -> SymCharSet"],
    "bounds": {"quick": "about 45 base atoms x every position x {replace, insert} x 2 EAPIs per base (rotating over 7), one symbolic character (94 values) each", "thorough": "about 120 base atoms x all 7 EAPIs"},
    "outside": ["edits of two or more characters", "atoms longer than 45 characters", "non-ASCII", "transitive USE-dep evaluation (C09)"],
    "assumptions": ["PMS 3.1.1-3.2, 8.3.1-8.3.4; repository ids (::repo) are a pkgcore extension allowed only without an EAPI"],
    "selector_only": False,
}

EAPIS = ["-1", "0", "1", "2", "4", "5", "8"]
VER_RE = re.compile(r"\d+(\.\d+)*[a-z]?(_(alpha|beta|pre|rc|p)\d*)*(-r\d+)?$")
VER_NOREV_RE = re.compile(r"\d+(\.\d+)*[a-z]?(_(alpha|beta|pre|rc|p)\d*)*$")
CAT_RE = re.compile(r"[A-Za-z0-9_][A-Za-z0-9+_.-]*$")
PN_RE = re.compile(r"[A-Za-z0-9_][A-Za-z0-9+_-]*$")
SLOT_RE = re.compile(r"[A-Za-z0-9_][A-Za-z0-9+_.-]*$")
REPO_RE = re.compile(r"[A-Za-z0-9_][A-Za-z0-9_-]*$")
FLAG_RE = re.compile(r"[A-Za-z0-9][A-Za-z0-9+_@-]*$")


def eapi_n(e):
    return 99 if e == "-1" else int(e)


def valid_pn(pn):
    if not PN_RE.match(pn):
        return False
    # must not end in a hyphen followed by anything matching the version syntax
    for i, ch in enumerate(pn):
        if ch == "-" and VER_RE.match(pn[i + 1:]):
            return False
    return True


def split_name_version(rest):
    """rest = package[-version]; -> list of (pn, version|None) candidates that are grammatical"""
    out = []
    if valid_pn(rest):
        out.append((rest, None))
    for i, ch in enumerate(rest):
        if ch == "-" and VER_RE.match(rest[i + 1:]) and valid_pn(rest[:i]):
            out.append((rest[:i], rest[i + 1:]))
    return out


def ref_accept(s, eapi):
    n = eapi_n(eapi)
    if not s:
        return False
    # use deps
    use = None
    if "[" in s or "]" in s:
        if n < 2 or not s.endswith("]") or s.count("[") != 1 or s.count("]") != 1:
            return False
        s, use = s[:-1].split("[")
        if not use:
            return False
        for item in use.split(","):
            cond = False
            if item.endswith(("?", "=")):
                cond = True
                item = item[:-1]
                if item.startswith("!"):
                    item = item[1:]
            elif item.startswith("-"):
                item = item[1:]
            if item.endswith(("(+)", "(-)")):
                if n < 4:
                    return False
                item = item[:-3]
            if not FLAG_RE.match(item):
                return False
    # repo id
    if "::" in s:
        s, repo = s.split("::", 1)
        if eapi != "-1" or not REPO_RE.match(repo):
            return False
    # slot dep
    if ":" in s:
        s, slot = s.split(":", 1)
        if n < 1 or not slot:
            return False
        if n >= 5:
            if slot in ("*", "="):
                pass
            else:
                if slot.endswith("="):
                    slot = slot[:-1]
                parts = slot.split("/")
                if len(parts) > 2 or not all(SLOT_RE.match(p) for p in parts):
                    return False
        elif not SLOT_RE.match(slot):
            return False
    # blockers
    if s.startswith("!!"):
        if n < 2:
            return False
        s = s[2:]
    elif s.startswith("!"):
        s = s[1:]
    # operator
    op = ""
    for o in ("<=", ">=", "<", ">", "=", "~"):
        if s.startswith(o):
            op, s = o, s[len(o):]
            break
    glob = False
    if op == "=" and s.endswith("*"):
        glob, s = True, s[:-1]
    if s.count("/") != 1:
        return False
    cat, rest = s.split("/")
    if not CAT_RE.match(cat):
        return False
    cands = split_name_version(rest)
    if op:
        cands = [c for c in cands if c[1] is not None]
        if op == "~":
            cands = [c for c in cands if VER_NOREV_RE.match(c[1])]
    else:
        cands = [c for c in cands if c[1] is None]
    return bool(cands)


# ---------------------------------------------------------------- base atoms
def base_atoms(tier, rng):
    names = ["cat/pkg", "dev-libs/libfoo", "x11/pkg-name", "a/b", "cat/foo-bar-baz", "c.d/e+f", "cat/pkg1", "_c/_p", "cat/font-100dpi", "cat/p-r1x"]
    vers = ["1", "1.0", "1.2.3", "1a", "1_alpha", "1_p2", "1.0_rc1_p3", "1-r1", "2.5b_pre3-r10", "0"]
    out = ["cat/pkg", "!cat/pkg", "!!cat/pkg", "=cat/pkg-1.0", ">=dev-libs/libfoo-1.2.3", "~cat/pkg-1a", "<x11/pkg-name-1_alpha", "<=cat/foo-bar-baz-1-r1", ">cat/pkg-2.5b_pre3-r10", "=cat/pkg-1*", "=cat/pkg-1.0_rc1_p3*",
           "cat/pkg:0", "cat/pkg:1.2", "cat/pkg:0/1", "cat/pkg:0=", "cat/pkg:0/1=", "cat/pkg:*", "cat/pkg:=", "=cat/pkg-1:2", "cat/pkg::repo", "cat/pkg:0::r_e-p", "=cat/pkg-1:0/1::gentoo[a]",
           "cat/pkg[a]", "cat/pkg[-a]", "cat/pkg[a,b]", "cat/pkg[a?]", "cat/pkg[!a?]", "cat/pkg[a=]", "cat/pkg[!a=]", "cat/pkg[a(+)]", "cat/pkg[-a(-)]", "cat/pkg[a(+)?,!b(-)=]", "!!>=cat/pkg-1:0[a,-b]",
           "a/b", "c.d/e+f", "_c/_p", "cat/font-100dpi", "cat/p-r1x", "=cat/pkg-1-1", "cat/pkg-1", "=cat/foo-1-bar-2", "~cat/pkg-1_p-r0", "=a/b-0-r00", "cat/pkg[a_b-c+d@e]", "=x/y-1.02.003b",
           "=cat/1-11", "cat/7", "=cat/2-3-r11", "=1/2-3", "cat/foo-bar-1-r3", "=cat/foo-bar-1-r3-2.0", "cat/foo-1-bar-r3", "media-fonts/font-100-dpi-r2", "=cat/a-b-c-d-1", "cat/a-1-b-2-r1x"]
    if tier != "quick":
        for n in names:
            for v in vers:
                out.append("=" + n + "-" + v)
            out.append(n + ":s/l=[u,-v]")
    seen = []
    for a in out:
        if a not in seen and len(a) <= 45:
            seen.append(a)
    return seen


class ParseHarness(Harness):
    def shims(self):
        # the error message of MalformedAtom is built with an f-string in errors.py (not lowered): messages are not observed
        return shadow.bindings() + [(errors.MalformedAtom, "__str__", lambda self: "malformed atom")]

    def setup(self, eng):
        ob = self.ob
        if ob["edit"] == "none":
            return {}
        return {"c": SymStr((eng.char("c", [(33, 126)]),))}

    def _text(self, inp):
        ob = self.ob
        b, p = ob["base"], ob.get("pos", 0)
        if ob["edit"] == "none":
            return b
        c = inp["c"]
        if ob["edit"] == "replace":
            return b[:p] + c + b[p + 1:]
        return b[:p] + c + b[p:]

    def body(self, inp):
        ob = self.ob
        sym = core.ENG is not None
        mod = shadow.get()[0] if sym else real_atom
        text = self._text(inp)
        with core.building():
            try:
                a = mod.atom(text, eapi=ob["eapi"])
            except errors.MalformedAtom:
                return {"accepted": False}
            except Exception as e:
                if isinstance(e, core.SXControl):
                    raise
                return {"accepted": "exception " + type(e).__name__}
            out = {"accepted": True}
            # round trip through str(): native only (str() of a symbolic atom needs the lowered __str__, exercised via shadow too)
            try:
                s2 = a.__str__()
                b = mod.atom(s2, eapi=ob["eapi"])
                out["roundtrip"] = core.sym_and(b == a, core.SymBool(core.eq_term(b.__str__(), s2))) if sym else (b == a and str(b) == s2)
            except errors.MalformedAtom:
                out["roundtrip"] = False
            return out

    def _ref(self, inp):
        ob = self.ob
        if ob["edit"] == "none":
            return z3.BoolVal(ref_accept(ob["base"], ob["eapi"]))
        c = inp["c"].items[0]
        b, p = ob["base"], ob["pos"]
        ok = []
        for code in range(33, 127):
            ch = chr(code)
            t = b[:p] + ch + (b[p + 1:] if ob["edit"] == "replace" else b[p:])
            if ref_accept(t, ob["eapi"]):
                ok.append(code)
        return core.char_in(c, [(x, x) for x in ok]) if ok else z3.BoolVal(False)

    def prop(self, inp, obs):
        acc = obs["accepted"]
        if not isinstance(acc, bool):
            return False
        ref = self._ref(inp)
        conds = [z3.BoolVal(acc) == ref]
        if acc:
            conds.append(core.unwrap_bool(obs["roundtrip"]))
        return z3.And(conds)

    def region(self, name, inp):
        ob = self.ob
        if ob["edit"] == "none":
            if name == "version-letter-uppercase":
                return bool(re.search(r"\d[A-Z]", ob["base"]))
            if name == "slot-leading-plus":
                return bool(re.search(r"[:/]\+", ob["base"]))
            raise KeyError(name)
        c = inp["c"].items[0]
        b, p = ob["base"], ob["pos"]
        prev = b[p - 1] if p > 0 else ""
        nxt = b[p + 1] if ob["edit"] == "replace" and p + 1 < len(b) else (b[p] if ob["edit"] == "insert" and p < len(b) else "")
        if name == "version-letter-uppercase":
            # an upper-case letter right after a digit: pkgcore's version syntax takes [a-zA-Z], PMS [a-z]
            return z3.And(c >= 65, c <= 90) if prev.isdigit() else False
        if name == "slot-leading-plus":
            conds = []
            if prev in (":", "/"):
                conds.append(c == 43)
            if nxt == "+":
                conds.append(z3.Or(c == 58, c == 47))
            return z3.Or(conds) if conds else False
        raise KeyError(name)


def harness(ob):
    return ParseHarness(ob)


def selfcheck(tier, seed):
    """translator validation: shadow parser == real parser on the repository's own style of inputs, and the
    reference agrees with the real parser on unedited base atoms where pkgcore follows PMS"""
    texts = base_atoms("thorough", random.Random(0))
    n = shadow.differential(texts, ("-1", "0", "2", "5", "8"))
    return {"shadow_vs_real_atoms": n}


UNIVERSE = {}


def obligations(tier, seed):
    rng = random.Random(seed)
    obs = []
    bases = base_atoms(tier, rng)
    for bi, b in enumerate(bases):
        eapis = EAPIS if tier != "quick" else [EAPIS[(bi + k * 3) % len(EAPIS)] for k in range(2)]
        for e in dict.fromkeys(eapis):
            obs.append({"oid": f"{b}|eapi={e}|unedited", "base": b, "eapi": e, "edit": "none"})
            for p in range(len(b) + 1):
                if p < len(b):
                    obs.append({"oid": f"{b}|eapi={e}|replace@{p}", "base": b, "eapi": e, "edit": "replace", "pos": p})
                obs.append({"oid": f"{b}|eapi={e}|insert@{p}", "base": b, "eapi": e, "edit": "insert", "pos": p})
            # deletions (concrete variants)
            for p in range(len(b)):
                d = b[:p] + b[p + 1:]
                if d:
                    obs.append({"oid": f"{b}|eapi={e}|delete@{p}", "base": d, "eapi": e, "edit": "none"})
    seen, out = set(), []
    for ob in obs:
        k = (ob["base"], ob["eapi"], ob["edit"], ob.get("pos"))
        if k not in seen:
            seen.add(k)
            out.append(ob)
    UNIVERSE[tier] = {"base_atoms": len(bases), "obligations": len(out)}
    return out
