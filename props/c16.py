"""C16 - resolver choice policy: highest version for upgrades, reuse for minimal installs."""
from pkgcore.ebuild import resolver
from pkgcore.ebuild.atom import atom
from props.c15 import Repo, mk
from sx import core
from sx.runner import Harness

ID = "C16"
MANIFEST = {
    "technique": "bounded model checking with solver-decided choice (SX engine): the dependencies of the three versions of the targeted package (none, on a resolvable leaf, on a package that does not exist, on a package blocked by an installed one), the installed set, the target (unversioned, ranged) and the resolver strategy are symbolic selectors; resolvability of the highest matching version is known by construction of the menus; the engine forks over every feasible combination, runs the real upgrade / minimal-install resolver twice on fresh objects and checks the chosen version and the equality of the two plans",
    "level_text": "Bounded model checking, exhaustive within the bound (4 x 4 dependency shapes of the two highest versions x 6 installed sets x 4 targets x 2 strategies x verify-vdb on/off): with the upgrade strategy a target whose highest matching version is resolvable ends up satisfied by exactly that version, and an installed instance of that version is kept rather than re-merged; with the minimal-install strategy a target already satisfied by an installed package merges nothing for it; two resolutions of identical inputs give identical plans. Selector-only.",
    "level_note": "selector-only harness (labelled as such). 'Resolvable' is decided by construction: a version is resolvable when its dependency menu entry is 'none' or 'on the leaf package', or 'on a package an installed one blocks' while the blocking package is not installed.",
}
META = {
    "modules": ["pkgcore.resolver.plan", "pkgcore.ebuild.resolver", "pkgcore.repository.misc", "pkgcore.resolver.choice_point"],
    "functions": ["plan.merge_plan.prefer_highest_version_strategy / prefer_reuse_strategy", "plan.highest_iter_sort / lowest_iter_sort", "misc.multiplex_sorting_repo / caching_repo", "resolver.upgrade_resolver / min_install_resolver"],
    "bounds": {"quick": "menus above", "thorough": "same (the space is swept completely in both tiers)"},
    "outside": ["visibility filtering (C13)", "USE-conditional dependencies", "more than three versions of the target"],
    "assumptions": [],
    "selector_only": True,
}

VDEPS = [("none", {}), ("leaf", {"rdepend": "cat/leaf"}), ("missing", {"rdepend": "cat/nowhere"}), ("blocked", {"rdepend": "cat/hated"})]
INSTALLED = [[], ["cat/x-1"], ["cat/x-2"], ["cat/x-3"], ["cat/x-3", "cat/leaf-1"], ["cat/x-1", "cat/enemy-1"]]
TARGETS = ["cat/x", ">=cat/x-2", "<cat/x-3", "=cat/x-2"]
STRATS = ["upgrade", "min-install"]


def resolve(spec, installed, target, strat, verify, vdb_spec=None):
    src, vdb = Repo(repo_id="src"), Repo(repo_id="vdb")
    vdb.livefs = True
    src.pkgs = [mk(src, cpv, **kw) for cpv, kw in spec.items()]
    vdb.pkgs = [mk(vdb, cpv, **(vdb_spec or spec).get(cpv, {})) for cpv in installed]
    f = resolver.upgrade_resolver if strat == "upgrade" else resolver.min_install_resolver
    r = f([vdb], [src], verify_vdb=verify)
    failed = r.add_atoms([atom(target)])
    ops = [(op.desc, op.pkg.cpvstr, bool(op.pkg.repo.livefs)) for op in r.state.iter_ops(True)]
    return bool(failed), ops


class PolicyHarness(Harness):
    def setup(self, eng):
        fam = self.ob.get("family", "versions")
        if fam == "cycle":
            return {"second_user": eng.bool("second_user_of_the_atom"), "strategy": eng.int("strategy", 0, 1), "verify": eng.bool("verify_vdb"), "t_installed": eng.bool("t1_installed")}
        if fam == "multislot":
            return {"case": eng.int("installed_slots", 0, 2), "lower_first": eng.bool("vdb_lists_lower_slot_first"), "verify": eng.bool("verify_vdb"), "target": eng.int("target", 0, 1)}
        return {"d3": self.ob["d3"], "d2": eng.int("deps_of_x2", 0, len(VDEPS) - 1), "inst": eng.int("installed", 0, len(INSTALLED) - 1), "target": eng.int("target", 0, len(TARGETS) - 1), "strategy": eng.int("strategy", 0, 1), "verify": eng.bool("verify_vdb")}

    def body(self, inp):
        c = core.fix(inp) if core.ENG is not None else inp
        fam = self.ob.get("family", "versions")
        if fam == "cycle":
            return self.body_cycle(c)
        if fam == "multislot":
            return self.body_multislot(c)
        spec = {
            "cat/x-1": {}, "cat/x-2": VDEPS[c["d2"]][1], "cat/x-3": VDEPS[c["d3"]][1], "cat/leaf-1": {},
            # cat/hated exists but an installed package blocks it when cat/enemy is installed
            "cat/hated-1": {}, "cat/enemy-1": {"rdepend": "!!cat/hated"},
        }
        installed, target, strat = INSTALLED[c["inst"]], TARGETS[c["target"]], STRATS[c["strategy"]]
        failed, ops = resolve(spec, installed, target, strat, c["verify"])
        failed2, ops2 = resolve(spec, installed, target, strat, c["verify"])
        out = {"deps": {"x-2": VDEPS[c["d2"]][0], "x-3": VDEPS[c["d3"]][0]}, "installed": installed, "target": target, "strategy": strat, "verify_vdb": c["verify"], "failed": failed, "plan": [list(o) for o in ops], "problems": []}
        problems = out["problems"]
        if (failed, ops) != (failed2, ops2):
            problems.append(f"second resolution of the same inputs differs: {ops2}")
        t = atom(target)
        vers = [v for v in ("3", "2", "1") if t.match(mk(None, f"cat/x-{v}"))]

        def resolvable(v):
            kind = {"1": "none", "2": VDEPS[c["d2"]][0], "3": VDEPS[c["d3"]][0]}[v]
            return kind in ("none", "leaf") or (kind == "blocked" and "cat/enemy-1" not in installed)

        merged_x = [cpv for desc, cpv, live in ops if cpv.startswith("cat/x-") and not live and desc in ("add", "replace")]
        have_x = {cpv for cpv in installed if cpv.startswith("cat/x-")}
        if strat == "upgrade" and vers and resolvable(vers[0]):
            best = f"cat/x-{vers[0]}"
            if failed:
                problems.append(f"reported failure although {best} is resolvable")
            elif best in have_x:
                if merged_x:
                    problems.append(f"{best} is installed, yet {merged_x} is merged")
            elif merged_x != [best]:
                problems.append(f"highest resolvable match is {best}, merged {merged_x or 'nothing'}")
        # with verify_vdb an installed package whose own dependencies cannot be resolved does not count as satisfying
        usable = [cpv for cpv in have_x if t.match(mk(None, cpv)) and (not c["verify"] or resolvable(cpv.rsplit("-", 1)[1]))]
        if strat == "min-install" and usable:
            if failed:
                problems.append("reported failure although an installed package satisfies the target")
            elif merged_x:
                problems.append(f"an installed package satisfies the target, yet {merged_x} is merged")
        return out

    def body_cycle(self, c):
        # x-2 and y-1 need each other at build time and neither is installed; the older x-1 needs nothing
        spec = {"a/t-1": {}, "a/t-2": {"depend": "a/x a/u" if c["second_user"] else "a/x"}, "a/x-2": {"depend": "a/y"}, "a/x-1": {}, "a/y-1": {"depend": "a/x"}, "a/u-1": {"depend": "a/x"}}
        installed = ["a/t-1"] if c["t_installed"] else []
        strat = STRATS[c["strategy"]]
        failed, ops = resolve(spec, installed, "a/t", strat, c["verify"])
        failed2, ops2 = resolve(spec, installed, "a/t", strat, c["verify"])
        out = {"family": "cycle", "second_user": c["second_user"], "installed": installed, "strategy": strat, "verify_vdb": c["verify"], "failed": failed, "plan": [list(o) for o in ops], "problems": []}
        if (failed, ops) != (failed2, ops2):
            out["problems"].append(f"second resolution of the same inputs differs: {ops2}")
        merged_t = [cpv for desc, cpv, live in ops if cpv.startswith("a/t-") and not live]
        if strat == "upgrade":
            # t-2 is resolvable (through x-1), so it is what the target must end up with
            if failed:
                out["problems"].append("reported failure although a/t-2 is resolvable through a/x-1")
            elif merged_t != ["a/t-2"]:
                out["problems"].append(f"highest resolvable match is a/t-2, merged {merged_t or 'nothing'}")
        elif installed and (failed or merged_t):
            out["problems"].append(f"an installed package satisfies the target, yet {merged_t or 'failure'}")
        return out

    def body_multislot(self, c):
        have = [(1, 2), (1, 3), (2, 3)][c["case"]]
        spec = {f"a/d-{v}": {"slot": str(v)} for v in (1, 2)}
        vdb_spec = {f"a/d-{v}": {"slot": str(v)} for v in have}
        installed = [f"a/d-{v}" for v in (have if c["lower_first"] else reversed(have))]
        target = ["a/d", ">=a/d-2"][c["target"]]
        failed, ops = resolve(spec, installed, target, "upgrade", c["verify"], vdb_spec)
        failed2, ops2 = resolve(spec, installed, target, "upgrade", c["verify"], vdb_spec)
        out = {"family": "multislot", "installed": installed, "target": target, "verify_vdb": c["verify"], "failed": failed, "plan": [list(o) for o in ops], "problems": []}
        if (failed, ops) != (failed2, ops2):
            out["problems"].append(f"second resolution of the same inputs differs: {ops2}")
        merged = [cpv for desc, cpv, live in ops if not live]
        # the highest match is installed (equal to or above what the repository offers): it is kept, nothing is merged
        if failed:
            out["problems"].append("reported failure although the highest match is installed")
        elif merged:
            out["problems"].append(f"a/d-{have[-1]} is installed and the highest match, yet {merged} is merged")
        return out

    def prop(self, inp, obs):
        return not obs["problems"]


def harness(ob):
    return PolicyHarness(ob)


UNIVERSE = {}


def obligations(tier, seed):
    obs = [{"oid": f"cat/x-3 depends on: {VDEPS[i][0]}", "d3": i, "max_paths": 100000, "max_s": 2400} for i in range(len(VDEPS))]
    obs += [{"oid": "fallback inside a build-time cycle", "family": "cycle", "max_paths": 100000, "max_s": 2400}, {"oid": "package installed in several slots", "family": "multislot", "max_paths": 100000, "max_s": 2400}]
    UNIVERSE[tier] = {"obligations": len(obs)}
    return obs
