"""C36 - fetching returns only verified files and uses every allowed attempt."""
import contextlib
import itertools
import os
import shutil
import tempfile

import z3

from pkgcore.fetch import base as fbase
from pkgcore.fetch import custom, errors, fetchable
from sx import core
from sx.core import SymBool, SymInt
from sx.runner import Harness

ID = "C36"
MANIFEST = {
    "technique": "symbolic execution (SX proxies + z3) of the real fetch.custom.fetcher.fetch attempt loop and fetch.base.fetcher._verify with the external fetcher, the file-system probes and the checksum handlers replaced by stubs whose results are solver variables: per attempt the size left on disk (unbounded Int, -1 = no file), 'digest equals expected' (Bool) and exit status (Int), the expected size (Int) and the initial file state; the returned value / exception and the spawn log are checked against the specification on every path; path models and counterexamples are replayed with a real bash fetch command writing real files in a scratch DISTDIR",
    "level_text": "Bounded symbolic model checking of the fetch loop: for attempt budgets 1-4, 1-4 URIs and the four checksum configurations (size+hash, hash only, size only, none) the solver proves for every sequence of fetcher outcomes (all integer sizes, digest right/wrong, any exit status) that a returned path holds a file of the expected size and digest, that a path is returned whenever the last executed attempt (or the initial state) leaves such a file, that no attempt is spawned after a verified file, that the attempt budget is used before giving up, and that a partial file is resumed, not discarded. Unbounded in sizes and exit codes, bounded in attempts/URIs.",
    "level_note": "Stubs (part of the claim): custom.spawn_bash -> next symbolic outcome; custom.os/base.os -> model file (exists/stat/unlink); base.get_handlers/get_chksums -> model size and digest. Trusted: SX engine. Native replays run the unmodified fetcher with a real bash command and real files (sizes capped at 64 bytes by an assumption used only to keep replays small).",
}
META = {
    "modules": ["pkgcore.fetch.custom", "pkgcore.fetch.base", "pkgcore.fetch.errors"],
    "functions": ["fetch.custom.fetcher.fetch", "fetch.custom.fetcher.__init__ (command rewriting, concrete)", "fetch.base.fetcher._verify"],
    "stubs": ["custom.spawn_bash", "custom.os.unlink", "base.os.path.exists / base.os.stat", "base.get_handlers", "base.get_chksums"],
    "bounds": {"quick": "attempts 1-3, URIs 1-3, checksum configurations {size+sha256, sha256, size, none}, initial state symbolic; sizes 0..64 or absent, exit status 0..255, expected size 0..64 (all symbolic)", "thorough": "attempts 1-4, URIs 1-4"},
    "outside": ["more than 4 attempts", "several hash types at once beyond size+sha256", "files larger than 64 bytes (the loop never does arithmetic on sizes, only comparisons)", "unlink failing (UnmodifiableFile)"],
    "assumptions": ["the external fetcher's effect is modelled as an arbitrary new file state per attempt (it may ignore the resume request)"],
    "selector_only": False,
}

EXPECTED_DIGEST = 4242
MAXSZ = 64


class ModelFile:
    def __init__(self, size, dig):
        self.size, self.dig = size, dig


class FakeStat:
    def __init__(self, s):
        self.st_size = s


class FakeOS:
    """the three os entry points the fetch code uses, over the model file"""

    def __init__(self, f, log):
        self.f, self.log = f, log
        self.path = self

    def exists(self, p):
        return self.f.size != -1

    def stat(self, p):
        if self.f.size == -1:
            raise FileNotFoundError(p)
        return FakeStat(self.f.size)

    def unlink(self, p):
        if self.f.size == -1:
            raise FileNotFoundError(p)
        self.f.size = -1
        self.log.append(("unlink",))


SCRIPT = r"""#!/bin/bash
# $1 = mode, $2 = DISTDIR file; scenario dir = $(dirname $0)
d=$(dirname "$0")
k=$(cat "$d/counter")
if [ -e "$2" ]; then sz=$(stat -c %s "$2"); else sz=-1; fi
echo "$1 $sz" >> "$d/log"
echo $((k+1)) > "$d/counter"
if [ -e "$d/out$k" ]; then cp "$d/out$k" "$2"; else rm -f "$2"; fi
exit $(cat "$d/ret$k")
"""


class FetchHarness(Harness):
    def setup(self, eng):
        ob = self.ob
        n = min(ob["attempts"], ob["uris"])
        inp = {"E": eng.int("E", 0, MAXSZ), "s0": eng.int("s0", -1, MAXSZ), "d0": eng.bool("d0"), "out": []}
        for k in range(n):
            inp["out"].append({"s": eng.int(f"s{k + 1}", -1, MAXSZ), "d": eng.bool(f"d{k + 1}"), "r": eng.int(f"r{k + 1}", 0, 255)})
        # an empty file has only one possible content: "size 0 with a wrong digest" is not a file state when E == 0
        for st in [(inp["s0"], inp["d0"])] + [(o["s"], o["d"]) for o in inp["out"]]:
            eng.assume(z3.Implies(z3.And(inp["E"].e == 0, st[0].e == 0), st[1].e))
            # a file of another size cannot have the expected digest (hash collisions are outside the claim)
            eng.assume(z3.Implies(st[1].e, st[0].e == inp["E"].e))
        return inp

    # ---------------------------------------------------------------- symbolic / stub mode
    def _chksums(self, E):
        cfg = self.ob["chk"]
        d = {}
        if "size" in cfg:
            d["size"] = E
        if "sha" in cfg:
            d["sha256"] = EXPECTED_DIGEST
        return d

    def body(self, inp):
        if core.ENG is None:
            return self._native(inp)
        ob = self.ob
        f = ModelFile(inp["s0"], inp["d0"])
        log = []
        fos = FakeOS(f, log)
        outs = inp["out"]
        st = {"k": 0}

        def spawn(cmd, **kw):
            k = st["k"]
            st["k"] += 1
            log.append(("spawn", "resume" if cmd.startswith("RESUME") else "fetch", f.size))
            if k >= len(outs):
                raise RuntimeError("more spawns than attempts/uris allow")
            f.size, f.dig = outs[k]["s"], outs[k]["d"]
            return outs[k]["r"]

        def get_handlers(chk=None):
            hs = {"size": lambda p: f.size, "sha256": lambda p: core.ite(f.dig, EXPECTED_DIGEST, EXPECTED_DIGEST + 1)}
            return {k: v for k, v in hs.items() if chk is None or k in chk}

        def get_chksums(p, *chfs):
            return [get_handlers()[c](p) for c in chfs]

        from sx.shims import patched

        ft = custom.fetcher("/dist", "FETCH ${URI} ${DISTDIR}/${FILE}", resume_command="RESUME ${URI} ${DISTDIR}/${FILE}", attempts=ob["attempts"], userpriv=False)
        tgt = fetchable("f.tar", uri=["u%d" % i for i in range(ob["uris"])], chksums=self._chksums(inp["E"]))
        with patched((custom, "spawn_bash", spawn), (custom, "os", fos), (fbase, "os", fos), (fbase, "get_handlers", get_handlers), (fbase, "get_chksums", get_chksums)):
            try:
                r = ft.fetch(tgt)
                res = "path" if r == "/dist/f.tar" else "other:%r" % (r,)
            except errors.FetchError as e:
                res = type(e).__name__ + (":urls" if "ran out of urls" in str(getattr(e, "message", "")) else "")
        return {"result": res, "log": [list(x) for x in log if x[0] == "spawn"]}

    # ---------------------------------------------------------------- native mode: real files, real bash
    def _native(self, inp):
        ob = self.ob
        td = tempfile.mkdtemp(prefix="c36-")
        try:
            dist = os.path.join(td, "dist")
            os.mkdir(dist)
            E = inp["E"]
            good = b"x" * E
            bad = b"y" * E

            def content(s, d):
                if s == -1:
                    return None
                if s == E:
                    return good if d else bad
                return b"z" * s

            with open(os.path.join(td, "fetch.sh"), "w") as fh:
                fh.write(SCRIPT)
            with open(os.path.join(td, "counter"), "w") as fh:
                fh.write("0")
            open(os.path.join(td, "log"), "w").close()
            for k, o in enumerate(inp["out"]):
                c = content(o["s"], o["d"])
                if c is not None:
                    with open(os.path.join(td, f"out{k}"), "wb") as fh:
                        fh.write(c)
                with open(os.path.join(td, f"ret{k}"), "w") as fh:
                    fh.write(str(o["r"]))
            c0 = content(inp["s0"], inp["d0"])
            path = os.path.join(dist, "f.tar")
            if c0 is not None:
                with open(path, "wb") as fh:
                    fh.write(c0)
            from snakeoil.chksum import get_chksums

            ref = os.path.join(td, "ref")
            with open(ref, "wb") as fh:
                fh.write(good)
            chk = {}
            if "size" in ob["chk"]:
                chk["size"] = E
            if "sha" in ob["chk"]:
                chk["sha256"] = get_chksums(ref, "sha256")[0]
            sh = os.path.join(td, "fetch.sh")
            ft = custom.fetcher(dist, f"bash {sh} fetch ${{DISTDIR}}/${{FILE}} ${{URI}}", resume_command=f"bash {sh} resume ${{DISTDIR}}/${{FILE}} ${{URI}}", attempts=ob["attempts"], userpriv=False)
            tgt = fetchable("f.tar", uri=["u%d" % i for i in range(ob["uris"])], chksums=chk)
            unlinks = []
            try:
                r = ft.fetch(tgt)
                res = "path" if r == path else "other:%r" % (r,)
            except errors.FetchError as e:
                res = type(e).__name__ + (":urls" if "ran out of urls" in str(getattr(e, "message", "")) else "")
            log = []
            for line in open(os.path.join(td, "log")):
                m, sz = line.split()
                log.append(["spawn", m, int(sz)])
            return {"result": res, "log": log}
        finally:
            shutil.rmtree(td, ignore_errors=True)

    # ---------------------------------------------------------------- specification
    def _verified(self, size, dig, E):
        cfg = self.ob["chk"]
        size = core.lift(size)
        c = []
        if "size" in cfg:
            c.append(size == core.lift(E))
        else:
            c.append(size > 0)
        if "sha" in cfg:
            c.append(core.unwrap_bool(dig))
        return z3.And(c)

    def prop(self, inp, obs):
        ob = self.ob
        E = inp["E"]
        res = obs["result"]
        spawns = [x for x in obs["log"] if x[0] == "spawn"]
        n = len(spawns)
        outs = inp["out"]
        conds = []
        # states after each executed spawn (the no-checksum rule discards a file left by a failing fetcher)
        states = [(inp["s0"], inp["d0"])]
        for k in range(n):
            s, d = outs[k]["s"], outs[k]["d"]
            if ob["chk"] == "none":
                s = core.ite(core.sym_and(core.lift(outs[k]["r"]) != 0), -1, s)
            states.append((s, d))
        fin = self._verified(*states[n], E)
        is_path = res == "path"
        # P1/P3: a returned path is verified
        if is_path:
            conds.append(fin)
        # P2: a verified file after the last executed attempt (or initially) is returned
        conds.append(z3.Implies(fin, z3.BoolVal(is_path)))
        # no attempt is spawned once the file is verified
        for k in range(n):
            conds.append(z3.Not(self._verified(*states[k], E)))
        # P5: the budget is used before giving up
        conds.append(z3.BoolVal(n <= ob["attempts"] and n <= ob["uris"]))
        if not is_path:
            if res == "ChksumFailure":
                pass
            elif res == "FetchFailed:urls":
                conds.append(z3.BoolVal(n == ob["uris"] and ob["uris"] < ob["attempts"]))
            elif res in ("FetchFailed", "MissingDistfile"):
                conds.append(z3.BoolVal(n == ob["attempts"]))
            else:
                conds.append(z3.BoolVal(False))
        # P4: a resumable partial file is kept and the resume command used
        if "size" in ob["chk"]:
            for k in range(n):
                sb = core.lift(states[k][0])
                partial = z3.And(sb >= 0, sb < core.lift(E))
                conds.append(z3.Implies(partial, z3.And(z3.BoolVal(spawns[k][1] == "resume"), core.lift(spawns[k][2]) == sb)))
                conds.append(z3.Implies(sb == -1, z3.BoolVal(spawns[k][1] == "fetch")))
        return z3.And(conds)

    def region(self, name, inp):
        raise KeyError(name)


def harness(ob):
    return FetchHarness(ob)


UNIVERSE = {}


def obligations(tier, seed):
    obs = []
    top = 3 if tier == "quick" else 4
    for a, u in itertools.product(range(1, top + 1), repeat=2):
        for chk in ("size+sha", "sha", "size", "none"):
            obs.append({"oid": f"attempts={a}|uris={u}|chk={chk}", "attempts": a, "uris": u, "chk": chk, "max_paths": 100000, "max_s": 900})
    UNIVERSE[tier] = {"configs": len(obs)}
    return obs
