"""C38 - package-list rewriting touches only the lines it must."""
import itertools

from pkgcore.bugzilla import pkglist
from pkgcore.bugzilla.errors import PackageListError
from pkgcore.bugzilla.pkglist import PackageList
from sx import core
from sx.runner import Harness

ID = "C38"
MANIFEST = {
    "technique": "bounded model checking with solver-decided choice (SX engine): every part of every line of a package list (indentation, package spec, the whitespace runs, the keyword list incl. the * ^ - sentinels and a keyword with an embedded #, trailing blanks, comment form, LF/CRLF/no line ending, blank and comment-only lines) and the suggestion function are symbolic selectors; the engine forks over every feasible list, runs the real PackageList._parse/entries/expand/build and PackageListEntry.with_keywords and compares the text with a line-wise reference",
    "level_text": "Bounded model checking, exhaustive within the bound: all lists of 2 lines (quick) / 3 lines (thorough) assembled from the part menus (about 25 000 lists per suggestion function): the entries reproduce the text exactly, build() parses back to its entries, expand() rewrites exactly the lines whose keywords change, keeping their spec, the spacing around it, the trailing blanks, comment and line ending, leaves every other line byte-identical, and raises PackageListError for a ^ with nothing (usable) above it. Selector-only.",
    "level_note": "selector-only harness (labelled as such). Trusted: the line-wise reference (rewritten keyword runs are single-space joined).",
}
META = {
    "modules": ["pkgcore.bugzilla.pkglist"],
    "functions": ["pkglist.PackageList._parse/entries/expand/build", "pkglist.PackageListEntry.with_keywords", "pkglist.parse_atom"],
    "bounds": {"quick": "2 lines from the part menus (second line fully varied; first line fully varied for three sentinel forms) x 2 suggestion functions", "thorough": "plus 3 lines (middle line: first four keyword lists, two comment forms, LF)"},
    "outside": ["lists longer than 3 lines", "invalid package specs (PackageListError by design)"],
    "assumptions": [],
    "selector_only": True,
}

INDENT = ["", "  ", "\t"]
SPEC = ["c/a", "c/b-1.2"]
SEP = [" ", "   ", "\t"]
KWS = [[], ["amd64"], ["*"], ["^"], ["amd64", "*"], ["-"], ["~x86", "^"], ["amd64#x86", "*"], ["amd64", "~x86", "arm"]]
KWSEP = [" ", "  "]
TRAIL = ["", " "]
COMMENT = ["", " # note", "# c", "\t#x *"]
EOL = ["\n", "\r\n"]
SUGGEST = [[], ["amd64"], ["arm64", "~x86"]]
SPECIAL = [None, "", "   ", "# only a comment", "  # c/a amd64"]


def mkline(p):
    if p.get("special") is not None:
        return {"raw": p["special"], "blank": True}
    kws = KWS[p["kw"]]
    head = INDENT[p["indent"]] + SPEC[p["spec"]]
    body = head
    if kws:
        body += SEP[p["sep"]] + KWSEP[p["kwsep"]].join(kws)
    tail = TRAIL[p["trail"]] + COMMENT[p["comment"]]
    if COMMENT[p["comment"]].startswith("#") and not TRAIL[p["trail"]]:
        tail = " " + tail  # a comment needs whitespace before '#'
    return {"raw": body + tail, "blank": False, "head": head + (SEP[p["sep"]] if kws else ""), "kws": kws, "tail": tail, "spec": SPEC[p["spec"]]}


def reference(lines, eols, sugg):
    """-> list of expected raw lines, or 'error'"""
    out = []
    prev = None
    changed = False
    for ln in lines:
        if ln["blank"]:
            out.append(ln["raw"])
            continue
        new = []
        for k in ln["kws"]:
            if k == "*":
                new += list(sugg) or ["-"]
            elif k == "^":
                if prev is None:
                    return "error"
                if not prev and len(ln["kws"]) > 1:
                    return "error"
                new += prev
            else:
                new.append(k)
        prev = list(new)
        if new != ln["kws"]:
            changed = True
            if ln["kws"]:
                out.append(ln["head"] + " ".join(new) + ln["tail"])
            else:
                out.append(ln["head"] + (" " if new else "") + " ".join(new) + ln["tail"])
        else:
            out.append(ln["raw"])
    return out


class ListHarness(Harness):
    def setup(self, eng):
        n = self.ob["n"]
        import z3

        inp = {"lines": [], "sugg": self.ob["sugg"], "last_eol": self.ob["last_eol"]}
        for i in range(n):
            full = i in self.ob["full"]
            if n == 3 and i == 1:
                # the middle line of a 3-line list comes from a reduced menu
                d = {"kw": eng.int(f"kw{i}", 0, 3), "comment": eng.int(f"cm{i}", 0, 1), "eol": 0}
            else:
                d = {"kw": eng.int(f"kw{i}", 0, len(KWS) - 1) if i else self.ob["kw0"], "comment": eng.int(f"cm{i}", 0, len(COMMENT) - 1), "eol": eng.int(f"eol{i}", 0, 1)}
            if full:
                d.update(indent=eng.int(f"in{i}", 0, len(INDENT) - 1), sep=eng.int(f"sp{i}", 0, len(SEP) - 1), trail=eng.int(f"tr{i}", 0, 1), special=eng.int(f"x{i}", 0, len(SPECIAL) - 1))
                # a blank/comment-only line has no other parts
                others = [v.e == 0 for k, v in d.items() if k not in ("special", "eol") and core.is_sym(v)]
                eng.assume(z3.Implies(d["special"].e != 0, z3.And(others) if others else True))
            inp["lines"].append(d)
        return inp

    def body(self, inp):
        c = core.fix(inp) if core.ENG is not None else inp
        parts = []
        for i, d in enumerate(c["lines"]):
            p = {"kw": d["kw"], "comment": d["comment"], "indent": d.get("indent", 0), "spec": i % 2, "sep": d.get("sep", 0), "kwsep": 1 if d["kw"] == 8 else (d["kw"] + i) % 2, "trail": d.get("trail", 0), "special": SPECIAL[d.get("special", 0)]}
            parts.append(p)
        lines = [mkline(p) for p in parts]
        eols = [EOL[d["eol"]] for d in c["lines"]]
        if not c["last_eol"]:
            eols[-1] = ""
        text = "".join(l["raw"] + e for l, e in zip(lines, eols))
        sugg = SUGGEST[c["sugg"]]
        out = {"text": text}
        pl = PackageList(text)
        try:
            ents = pl.entries
        except PackageListError:
            out["parse"] = "error"
            return out
        out["roundtrip"] = "".join(e.raw + e.eol for e in ents) == text
        out["kw_parsed"] = [list(e.keywords) for e in ents if e.pkg is not None] == [l["kws"] for l in lines if not l["blank"]]
        real = [(e.pkg, e.keywords) for e in ents if e.pkg is not None]
        rebuilt = PackageList.build(real)
        out["build_ok"] = [(e.pkg, e.keywords) for e in rebuilt.entries if e.pkg is not None] == real
        try:
            ex = pl.expand(lambda a: list(sugg))
            out["expanded"] = ex.text
        except PackageListError:
            out["expanded"] = "error"
        want = reference(lines, eols, sugg)
        out["want"] = want if want == "error" else "".join(r + e for r, e in zip(want, eols))
        return out

    def prop(self, inp, obs):
        if obs.get("parse") == "error":
            return False
        return obs["roundtrip"] and obs["kw_parsed"] and obs["build_ok"] and obs["expanded"] == obs["want"]


def harness(ob):
    return ListHarness(ob)


UNIVERSE = {}


def obligations(tier, seed):
    obs = []
    shapes = [(2, [0]), (2, [1])] + ([(3, [0]), (3, [2])] if tier != "quick" else [])
    for n, full in shapes:
        for sugg in range(len(SUGGEST)):
            for last_eol in (True, False):
                for kw0 in range(len(KWS)):
                    if n == 3 and (kw0 % 2 or last_eol):
                        continue
                    if tier == "quick" and (sugg == 1 or (full == [0] and not (sugg == 2 and last_eol and kw0 in (2, 3, 8)))):
                        continue
                    obs.append({"oid": f"lines={n}|full={full}|suggest={SUGGEST[sugg]}|last_eol={last_eol}|first_kw={KWS[kw0]}", "n": n, "full": full, "sugg": sugg, "last_eol": last_eol, "kw0": kw0, "max_paths": 3000000, "max_s": 2400})
    UNIVERSE[tier] = {"shapes": len(obs)}
    return obs
