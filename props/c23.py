"""C23 - merge-time permission hardening never lets unsafe modes through."""
import itertools

import z3

from pkgcore import os_data
from pkgcore.fs import contents, fs
from pkgcore.merge import engine as engine_mod
from pkgcore.merge import triggers
from sx import core
from sx.core import SymBool, SymInt
from sx.runner import Harness

ID = "C23"
MANIFEST = {
    "technique": "symbolic execution (SX proxies + z3 bit-vectors) of the real fix_uid_perms/fix_gid_perms/fix_set_bits/detect_world_writable triggers run through the real MergeEngine.execute_hook on content sets whose entry modes are 16-bit symbolic bit-vectors and whose uid/gid are unbounded symbolic integers; the hardened content set is compared with the specification on every path",
    "level_text": "Bounded symbolic model checking: for every enumerated content-set skeleton (<=3 entries over file/dir/symlink/fifo) the solver proves for all 2^16 modes and all integer owners per entry that after the pre-merge hook no non-symlink entry is setuid/setgid and world-writable, build-user/group ownership became root's, every other mode bit, owner, type, location, target and data object is unchanged. Unbounded in uid/gid, exhaustive in mode bits, bounded in set size.",
    "level_note": "Trusted: SX engine (bit-vector proxies). The fake engine object only carries the attributes execute_hook and the triggers read (observer, csets, hooks, mode, phase); the hook dispatcher itself (incl. its exception suppression) is the real one. Path models and counterexamples are replayed natively with plain ints.",
}
META = {
    "modules": ["pkgcore.merge.triggers", "pkgcore.merge.engine", "pkgcore.fs.fs", "pkgcore.fs.contents"],
    "functions": ["triggers.fix_uid_perms.trigger", "triggers.fix_gid_perms.trigger", "triggers.fix_set_bits.trigger", "triggers.detect_world_writable.trigger", "triggers.base.__call__", "engine.MergeEngine.execute_hook", "fs.fsBase.change_attributes", "contents.contentsSet.update/iterlinks"],
    "shims": [],
    "stubs": ["fake engine object (observer recording warn(), csets, hooks, mode, phase, regenerate_csets no-op)"],
    "bounds": {"quick": "content sets of 1-3 entries over {file, dir, symlink, fifo}; mode: 16-bit symbolic bit-vector per entry; uid/gid: unbounded symbolic Int per entry; observer present/absent; detect_world_writable fix_perms on/off", "thorough": "same with all type sequences of length <=3 and 4-entry samples"},
    "outside": ["device nodes", "content sets > 4 entries", "other pre-merge triggers"],
    "assumptions": ["setuid/setgid + world-writable is evaluated on the 16 mode bits st_mode carries"],
    "selector_only": False,
}

# build user/group and root ids are passed to the triggers explicitly (in this sandbox os_data maps both to 0,
# which would make the re-owning unobservable)
PU, PG, RU, RG = 250, 251, 0, 0

TYPES = {"file": fs.fsFile, "dir": fs.fsDir, "sym": fs.fsSymlink, "fifo": fs.fsFifo}


class Observer:
    def __init__(self):
        self.msgs = 0

    def warn(self, *a, **k):
        self.msgs += 1

    info = error = debug = warn

    def trigger_start(self, *a):
        pass

    trigger_end = trigger_start


class FakeEngine:
    mode = engine_mod.INSTALL_MODE if hasattr(engine_mod, "INSTALL_MODE") else None

    def __init__(self, cset, observer, trigs):
        self.csets = {"new_cset": cset}
        self.observer = observer
        self.hooks = {"pre_merge": list(trigs)}
        self.phase = None

    def regenerate_csets(self):
        pass


class PermHarness(Harness):
    def setup(self, eng):
        inp = {"e": []}
        for i, t in enumerate(self.ob["types"]):
            inp["e"].append({"mode": eng.bv(f"mode{i}", 16), "uid": eng.int(f"uid{i}", 0), "gid": eng.int(f"gid{i}", 0)})
        return inp

    def _mk(self, inp):
        objs = []
        self.data = []
        for i, (t, e) in enumerate(zip(self.ob["types"], inp["e"])):
            kw = dict(mode=e["mode"], uid=e["uid"], gid=e["gid"], mtime=100 + i)
            loc = f"/usr/e{i}"
            if t == "sym":
                o = fs.fsSymlink(loc, target=f"../t{i}", **kw)
            elif t == "file":
                d = object()
                self.data.append(d)
                o = fs.fsFile(loc, data=d, chksums={"size": 5 + i}, strict=False, **kw)
            else:
                o = TYPES[t](loc, **kw)
            objs.append(o)
        return objs

    def body(self, inp):
        objs = self._mk(inp)
        cset = contents.contentsSet(objs, mutable=True)
        obsv = Observer() if self.ob["observer"] else None
        trigs = [triggers.fix_uid_perms(uid=PU, replacement=RU), triggers.fix_gid_perms(gid=PG, replacement=RG), triggers.fix_set_bits(), triggers.detect_world_writable(fix_perms=self.ob["fix_ww"])]
        e = FakeEngine(cset, obsv if obsv is not None else _Null(), trigs)
        if obsv is None:
            e.observer = _Null()
        engine_mod.MergeEngine.execute_hook(e, "pre_merge")
        out = []
        res = {o.location: o for o in e.csets["new_cset"]}
        for i, o0 in enumerate(objs):
            o = res.get(o0.location)
            if o is None:
                out.append(None)
                continue
            out.append({
                "type": type(o).__name__, "mode": o.mode, "uid": o.uid, "gid": o.gid, "mtime": o.mtime,
                "target": getattr(o, "target", None) if self.ob["types"][i] == "sym" else None,
                "same_data": (o.data is o0.data) if self.ob["types"][i] == "file" else None,
                "size": o.chksums["size"] if self.ob["types"][i] == "file" else None,
            })
        return {"entries": out, "n": len(res)}

    def prop(self, inp, obs):
        conds = [z3.BoolVal(obs["n"] == len(self.ob["types"]))]
        pu, pg, ru, rg = PU, PG, RU, RG
        for i, (t, e, o) in enumerate(zip(self.ob["types"], inp["e"], obs["entries"])):
            if o is None:
                return False
            conds.append(z3.BoolVal(o["type"] == TYPES[t].__name__ and o["mtime"] == 100 + i))
            m0, m1 = core.lift(e["mode"]), core.lift(o["mode"], core.lift(e["mode"]))
            if not z3.is_bv(m1):
                m1 = core.lift(o["mode"], m0)
            u0, g0 = core.lift(e["uid"]), core.lift(e["gid"])
            conds.append(core.lift(o["uid"]) == z3.If(u0 == pu, ru, u0))
            conds.append(core.lift(o["gid"]) == z3.If(g0 == pg, rg, g0))
            if t == "sym":
                conds.append(m1 == m0)
                conds.append(z3.BoolVal(o["target"] == f"../t{i}"))
            else:
                unsafe = z3.And((m0 & 0o6000) != 0, (m0 & 0o002) != 0)
                exp = z3.If(unsafe, m0 & ~0o6002, m0)
                if self.ob["fix_ww"]:
                    exp = exp & ~0o002
                conds.append(m1 == exp)
                conds.append(z3.Not(z3.And((m1 & 0o6000) != 0, (m1 & 0o002) != 0)))
            if t == "file":
                conds.append(z3.BoolVal(o["same_data"] is True and o["size"] == 5 + i))
        return z3.And(conds)


class _Null:
    """observer stand-in when none is attached: execute_hook itself needs trigger_start/trigger_end"""

    def trigger_start(self, *a):
        pass

    trigger_end = trigger_start

    def warn(self, *a, **k):
        pass

    error = info = warn

    def __bool__(self):
        return False


def harness(ob):
    return PermHarness(ob)


UNIVERSE = {}


def obligations(tier, seed):
    obs = []
    seqs = [("file",), ("dir",), ("sym",), ("fifo",), ("file", "file"), ("file", "sym"), ("dir", "file"), ("sym", "dir"), ("file", "dir", "sym"), ("file", "file", "file"), ("fifo", "sym", "file")]
    if tier == "thorough":
        seqs = [s for n in (1, 2, 3) for s in itertools.product(TYPES, repeat=n)] + [("file", "dir", "sym", "fifo"), ("file", "file", "sym", "file")]
    for s in seqs:
        for observer in (True, False):
            for fix in (False, True):
                obs.append({"oid": "%s|obs=%s|fixww=%s" % (",".join(s), observer, fix), "types": list(s), "observer": observer, "fix_ww": fix, "max_paths": 200000, "max_s": 600})
    UNIVERSE[tier] = {"skeletons": len(obs)}
    return obs
