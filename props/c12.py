"""C12 - incremental token expansion follows left-to-right incremental semantics."""
import itertools

import z3

from pkgcore.ebuild import misc
from sx import core
from sx.runner import Harness

ID = "C12"
MANIFEST = {
    "technique": "bounded model checking with solver-decided nondeterministic choice (SX engine): every token of the stream is a symbolic selector over a token menu and the base set a symbolic subset; the engine forks over all feasible choices, runs the real incremental_expansion / optimize_incrementals / incremental_expansion_license on each and compares with a left-to-right reference; selector-only (no value variables)",
    "level_text": "Bounded model checking, exhaustive within the bound: all token streams of length <= 4 over the USE-like menu {a,b,-a,-b,-*,-} with all base sets, and all license streams of length <= 3 (quick) / 4 (thorough) over {a,b,c,-a,-b,*,-*,@g,-@g,@h,-@h,@missing,-,-@,@} with groups g={a,b}, h={b,c}: the expansion equals left-to-right processing, the condensed form (as pkgcore stores it: a frozenset split into negatives and positives, negatives applied first) expands to the same set over every base set, and incomplete negations raise ValueError. The solver only does the exhaustiveness bookkeeping here.",
    "level_note": "selector-only harness (weakest use of the technique, labelled as such): the SX engine enumerates the choices, the real functions run on concrete tokens. Trusted: the left-to-right reference.",
}
META = {
    "modules": ["pkgcore.ebuild.misc"],
    "functions": ["misc.incremental_expansion", "misc.optimize_incrementals", "misc.incremental_expansion_license", "misc.incremental_chunked (condensed-form application)"],
    "bounds": {"quick": "USE-like streams of length <=4 (all 6^4), license streams of length <=3 (15^3), base sets: all subsets of {a,b}", "thorough": "license streams of length <=4"},
    "outside": ["streams longer than 4 tokens", "more than 3 license names / 2 groups", "collapsed_restrict_to_data.pull_data (covered with C13)"],
    "assumptions": [],
    "selector_only": True,
}

USE_MENU = ["a", "b", "-a", "-b", "-*", "-"]
LIC_MENU = ["a", "b", "c", "-a", "-b", "*", "-*", "@g", "-@g", "@h", "-@h", "@missing", "-", "-@", "@"]
GROUPS = {"g": ("a", "b"), "h": ("b", "c")}
LICENSES = ("a", "b", "c")


def ref_expand(tokens, base):
    s = set(base)
    for t in tokens:
        if t.startswith("-"):
            i = t[1:]
            if not i:
                raise ValueError
            if i == "*":
                s.clear()
            else:
                s.discard(i)
        else:
            s.add(t)
    return s


def ref_license(tokens):
    s = set()
    for t in tokens:
        if t.startswith("-"):
            i = t[1:]
            if not i:
                raise ValueError
            if i == "*":
                s.clear()
            elif i.startswith("@"):
                if not i[1:]:
                    raise ValueError
                s -= set(GROUPS.get(i[1:], ()))
            else:
                s.discard(i)
        elif t.startswith("@"):
            if not t[1:]:
                raise ValueError
            s |= set(GROUPS.get(t[1:], ()))
        elif t == "*":
            s |= set(LICENSES)
        else:
            s.add(t)
    return s


def apply_condensed(cond, base):
    """how pkgcore applies a stored condensed stream (split_negations -> add_bare_global -> incremental_chunked)"""
    neg = {t[1:] for t in cond if t.startswith("-")}
    pos = {t for t in cond if not t.startswith("-")}

    class C:
        pass

    c = C()
    c.neg, c.pos = neg, pos
    s = set(base)
    misc.incremental_chunked(s, [c])
    return s


class StreamHarness(Harness):
    def setup(self, eng):
        ob = self.ob
        menu = USE_MENU if ob["kind"] == "use" else LIC_MENU
        inp = {"sel": [eng.int(f"t{i}", 0, len(menu) - 1) for i in range(ob["n"] - len(ob["prefix"]))]}
        if ob["kind"] == "use":
            inp["base"] = [eng.bool("base_a"), eng.bool("base_b")]
        return inp

    def body(self, inp):
        ob = self.ob
        menu = USE_MENU if ob["kind"] == "use" else LIC_MENU
        sel = core.fix(inp["sel"]) if core.ENG is not None else inp["sel"]
        toks = list(ob["prefix"]) + [menu[i] for i in sel]
        out = {"tokens": toks}

        def run(f):
            try:
                return sorted(f())
            except ValueError:
                return "ValueError"

        if ob["kind"] == "use":
            b = core.fix(inp["base"]) if core.ENG is not None else inp["base"]
            base = {x for x, on in zip("ab", b) if on}
            out["base"] = sorted(base)
            out["expand"] = run(lambda: misc.incremental_expansion(list(toks), orig=set(base)))
            out["expand_gen"] = run(lambda: misc.incremental_expansion(iter(toks), orig=set(base), msg_prefix="x"))
            out["nofinal"] = run(lambda: misc.incremental_expansion(list(toks), orig=set(base), finalize=False))
            out["condensed"] = run(lambda: apply_condensed(frozenset(misc.optimize_incrementals(list(toks))), base))
            out["condensed_tuple"] = run(lambda: apply_condensed(frozenset(misc.optimize_incrementals(tuple(toks))), base))
        else:
            out["license"] = run(lambda: misc.incremental_expansion_license("pkg", LICENSES, GROUPS, list(toks)))
        return out

    def prop(self, inp, obs):
        toks = obs["tokens"]
        if self.ob["kind"] == "use":
            base = set(obs["base"])
            try:
                want = sorted(ref_expand(toks, base))
            except ValueError:
                want = "ValueError"
            ok = obs["expand"] == want and obs["expand_gen"] == want
            # the condensed walk stops at -*: an incomplete negation left of it is not seen (accepted either way)
            if want == "ValueError":
                ok = ok and obs["condensed"] in ("ValueError",) + ((obs["condensed"],) if "-*" in toks else ())
            else:
                ok = ok and obs["condensed"] == want and obs["condensed_tuple"] == want
            if want != "ValueError":
                nf = obs["nofinal"]
                ok = ok and nf != "ValueError" and sorted(t for t in nf if not t.startswith("-")) == want
            return ok
        try:
            want = sorted(ref_license(toks))
        except ValueError:
            want = "ValueError"
        return obs["license"] == want

    def expected(self, inp, obs):
        return None


def harness(ob):
    return StreamHarness(ob)


UNIVERSE = {}


def obligations(tier, seed):
    obs = []
    for n in (1, 2, 3, 4):
        for p in ([()] if n == 1 else [(t,) for t in USE_MENU]):
            obs.append({"oid": f"use:n={n}|first={''.join(p) or '*any*'}", "kind": "use", "n": n, "prefix": list(p), "max_paths": 400000, "max_s": 900})
    top = 3 if tier == "quick" else 4
    for n in range(1, top + 1):
        for p in ([()] if n == 1 else [(t,) for t in LIC_MENU]):
            obs.append({"oid": f"lic:n={n}|first={''.join(p) or '*any*'}", "kind": "lic", "n": n, "prefix": list(p), "max_paths": 400000, "max_s": 900})
    UNIVERSE[tier] = {"use_streams": sum(6 ** n for n in (1, 2, 3, 4)) * 4, "license_streams": sum(15 ** n for n in range(1, top + 1))}
    return obs
