"""C29 - package database updates are crash-consistent."""
import builtins
import os
import shutil
import tempfile
from types import SimpleNamespace

from snakeoil import data_source

from pkgcore.fs import livefs
from pkgcore.binpkg import repo_ops as bin_ops
from pkgcore.binpkg import repository as bin_repo
from pkgcore.vdb import ondisk, repo_ops
from sx import core
from sx.runner import Harness
from sx.shims import patched

ID = "C29"
MANIFEST = {
    "technique": "bounded model checking with solver-decided choice (SX engine): the operation on the installed-package database (install, uninstall, replace by the same version, replace by another version), the set of metadata the package carries and the index of the file operation at which the process stops (directory creation, every file open-for-write and write, the CONTENTS flush, every unlink/rmdir of the removal, every rename, utime) are symbolic selectors; os / shutil / open as seen by pkgcore.vdb.repo_ops are wrapped to count operations and stop at the chosen one; the engine forks over every feasible combination, runs the real vdb repo_ops.install / uninstall / replace stages (start, add_data, remove_data, finalize_data) on a real scratch database and compares what a fresh ondisk.tree lists and reads at the moment of the stop with the state before and the state after an undisturbed twin run",
    "level_text": "Bounded model checking, exhaustive within the bound: vdb: 5 operations (install, uninstall, replace by the same version, by another version, by another revision) x 2 metadata shapes x every file-operation index (0..39); binary-package repository: install, uninstall, same-version replace x every rename/unlink: a fresh view of the database lists, for the package, exactly the old state or exactly the new state (for a replacement by another version also both, each complete) with slot, description, contents and environment readable and equal to what was recorded; never a partially written or partially removed package and never none of them. Selector-only; real code on real files.",
    "level_note": "selector-only harness (labelled as such). A stop is an exception nothing catches, injected before the operation takes effect (for a write: after half of the bytes).",
}
META = {
    "modules": ["pkgcore.vdb.repo_ops", "pkgcore.vdb.ondisk", "pkgcore.vdb.contents", "pkgcore.binpkg.repo_ops", "pkgcore.binpkg.repository"],
    "functions": ["repo_ops.install.add_data/finalize_data", "repo_ops.uninstall.finalize_data", "repo_ops.replace.finalize_data", "ondisk.tree._get_packages (listing skips .tmp.*)", "ondisk.tree package metadata reads"],
    "stubs": ["pkgcore.vdb.repo_ops.os / shutil / open wrapped (mutating calls counted, stop injected)", "package objects: plain objects carrying the tracked attributes repo_ops reads", "domain: object with pm_tmpdir"],
    "bounds": {"quick": "operation index 0..39, 4 operations, 2 metadata shapes", "thorough": "same (the space is swept completely in both tiers)"},
    "outside": ["stops inside the tarball/xpak writing of a binary package (they happen on the .tmp. file)", "power loss below the system-call level", "concurrent readers holding a listing cache"],
    "assumptions": [],
    "selector_only": True,
}

OPS = ["install", "uninstall", "replace-same-version", "replace-other-version", "replace-other-revision"]
BINOPS = ["install", "uninstall", "replace-same-version"]
NEWVER = {"replace-other-version": "2", "replace-other-revision": "1-r1"}
MAXOP = 39


class Crash(BaseException):
    pass


class Counter:
    def __init__(self, stop_at):
        self.n, self.stop_at, self.hit, self.trace = 0, stop_at, None, []

    def step(self, what, partial=None):
        i = self.n
        self.n += 1
        self.trace.append(what)
        if i == self.stop_at:
            self.hit = what
            if partial is not None:
                partial()
            raise Crash()


class FaultyOs:
    MUT = ("rename", "utime", "unlink", "rmdir", "mkdir", "remove", "makedirs")

    def __init__(self, c):
        self._c = c

    def __getattr__(self, name):
        real = getattr(os, name)
        if name in self.MUT:
            c = self._c

            def wrapped(*a, **k):
                c.step(f"{name}({os.path.basename(str(a[0]))})")
                return real(*a, **k)

            return wrapped
        return real


class FaultyShutil:
    """rmtree as a sequence of counted unlink/rmdir steps"""

    def __init__(self, c):
        self._c = c

    def rmtree(self, path, *a, **k):
        for dp, dn, fn in os.walk(path, topdown=False):
            for n in sorted(fn):
                self._c.step(f"unlink({n})")
                os.unlink(os.path.join(dp, n))
            self._c.step(f"rmdir({os.path.basename(dp)})")
            os.rmdir(dp)

    def __getattr__(self, name):
        return getattr(shutil, name)


def faulty_open(c):
    def _open(path, mode="r", *a, **k):
        if "w" not in mode and "a" not in mode:
            return builtins.open(path, mode, *a, **k)
        c.step(f"open-w({os.path.basename(str(path))})")
        f = builtins.open(path, mode, *a, **k)
        real_write = f.write

        class W:
            def write(self, data):
                def partial():
                    real_write(data[: len(data) // 2])
                    f.flush()

                c.step(f"write({os.path.basename(str(path))})", partial)
                return real_write(data)

            def __getattr__(self, n):
                return getattr(f, n)

            def __enter__(self):
                return self

            def __exit__(self, *e):
                return f.__exit__(*e)

        return W()

    return _open


def mkpkg(td, ver, tag, rich):
    img = os.path.join(td, f"img-{tag}")
    os.makedirs(os.path.join(img, "usr/bin"))
    with open(os.path.join(img, "usr/bin", f"tool-{tag}"), "w") as f:
        f.write(f"payload {tag}\n")
    cset = livefs.scan(img, offset=img)
    attrs = ["slot", "description", "contents", "environment"] + (["use", "depend", "keywords"] if rich else [])
    return SimpleNamespace(
        category="cat", package="pkg", fullver=ver, PF=f"pkg-{ver}", cpvstr=f"cat/pkg-{ver}", tracked_attributes=tuple(attrs), slot="0", description=f"the {tag} one", contents=cset,
        environment=data_source.data_source(f"ENVTAG={tag}\n".encode()), use=("a", "b"), depend=SimpleNamespace(slotdep_str=lambda domain: "dev/x"), keywords=("amd64",), ebuild=data_source.data_source(f"# ebuild {tag}\n".encode()),
    )


def mktree(kind, location):
    return ondisk.tree(location, disable_cache=True) if kind == "vdb" else bin_repo.tree(location)


def view(location, kind="vdb"):
    """what a fresh repository object lists and reads: version -> metadata, or a string describing what cannot be read"""
    tree = mktree(kind, location)
    out = {}
    try:
        pkgs = list(tree)
    except Exception as e:
        return {"listing": f"raises {type(e).__name__}"}
    for p in pkgs:
        try:
            out[p.fullver] = {"slot": p.slot, "description": p.description, "contents": sorted(x.location for x in p.contents), "environment": p.environment.bytes_fileobj().read().decode()}
        except Exception as e:
            out[p.fullver] = f"unreadable: {type(e).__name__}"
    return out


OBS = SimpleNamespace(phase_start=lambda *a: None, phase_end=lambda *a: None)


def run_op(op, tree, old, new, domain, kind="vdb"):
    mod = repo_ops if kind == "vdb" else bin_ops
    args = (domain,) if kind == "vdb" else ()
    if op == "install":
        o = mod.install(tree, new, OBS)
        o.start()
        o.add_data(*args)
        o.finalize_data()
    elif op == "uninstall":
        o = mod.uninstall(tree, old, OBS)
        o.start()
        o.remove_data()
        o.finalize_data()
    else:
        o = mod.replace(tree, old, new, OBS)
        o.start()
        o.remove_data()
        o.add_data(*args)
        o.finalize_data()


class VdbHarness(Harness):
    active = frozenset()

    def region(self, name, inp):
        self.active = set(self.active) | {name}
        return False

    def setup(self, eng):
        return {"rich": eng.bool("rich_metadata"), "stop_at": eng.int("stop_at", self.ob["lo"], self.ob["hi"])}

    def body(self, inp):
        c = core.fix(inp) if core.ENG is not None else inp
        op = self.ob["op"]
        kind = self.ob.get("kind", "vdb")
        mod = repo_ops if kind == "vdb" else bin_ops
        td = os.path.realpath(tempfile.mkdtemp(prefix="c29-"))
        twin_error = None
        try:
            states = {}
            for run in ("twin", "real"):
                loc = os.path.join(td, run, "vdb")
                os.makedirs(loc)
                domain = SimpleNamespace(pm_tmpdir=os.path.join(td, run, "tmp"))
                tree = mktree(kind, loc)
                old = mkpkg(os.path.join(td, run), "1", "old", c["rich"])
                new = mkpkg(os.path.join(td, run), NEWVER.get(op, "1"), "new", c["rich"])
                if op != "install":
                    run_op("install", tree, None, old, domain, kind)
                before = view(loc, kind)
                if run == "twin":
                    try:
                        run_op(op, tree, old, new, domain, kind)
                    except Exception as e:
                        twin_error = type(e).__name__
                    states["after"] = view(loc, kind)
                    states["before"] = before
                    continue
                counter = Counter(c["stop_at"])
                real_transfer = data_source.local_source.transfer_to_path
                outcome = "completed"
                binds = [(mod, "os", FaultyOs(counter))] + ([(mod, "shutil", FaultyShutil(counter)), (mod, "open", faulty_open(counter))] if kind == "vdb" else [])
                with patched(*binds):
                    try:
                        run_op(op, mktree(kind, loc), old, new, domain, kind)
                    except Crash:
                        outcome = "stopped"
                seen = view(loc, kind)
        finally:
            shutil.rmtree(td, ignore_errors=True)
        out = {"op": op, "rich": c["rich"], "stop_at": c["stop_at"], "stopped_in": counter.hit, "operations": counter.trace, "outcome": outcome, "problem": None}
        if twin_error is not None:
            out["problem"] = f"the undisturbed {op} does not complete: {twin_error}"
            return out
        if counter.hit is None and seen != states["after"]:
            out["problem"] = f"the undisturbed {op} ended in a state that differs from run to run"
            return out
        if counter.hit is None:
            return out
        ok = seen == states["before"] or seen == states["after"]
        if not ok and op in NEWVER:
            both = dict(states["before"])
            both.update(states["after"])
            ok = seen == both
        if not ok:
            what = "nothing listed" if not seen else ("partial or unreadable package listed" if any(isinstance(v, str) for v in seen.values()) or "listing" in seen else "a state that is neither the old nor the new one")
            if "same-version-replace-window" in self.active and kind == "vdb" and op == "replace-same-version" and not seen and counter.hit == "rename(.tmp.pkg-1)":
                return out
            out["problem"] = f"stopped in {counter.hit}: {what}"
            out["seen"] = {k: (v if isinstance(v, str) else sorted(v)) for k, v in seen.items()}
        return out

    def prop(self, inp, obs):
        return obs["problem"] is None


def harness(ob):
    return VdbHarness(ob)


UNIVERSE = {}


def obligations(tier, seed):
    obs = [{"oid": f"vdb {op}|stop index {lo}..{lo + 9}", "op": op, "lo": lo, "hi": lo + 9, "max_paths": 100000, "max_s": 2400} for op in OPS for lo in (0, 10, 20, 30)]
    obs += [{"oid": f"binpkg {op}|stop index 0..5", "kind": "binpkg", "op": op, "lo": 0, "hi": 5, "max_paths": 100000, "max_s": 2400} for op in BINOPS]
    UNIVERSE[tier] = {"obligations": len(obs)}
    return obs
