"""C09 - dependency strings round-trip and USE evaluation preserves meaning."""
import itertools
import random

import z3

from pkgcore.ebuild import conditionals
from pkgcore.ebuild.atom import atom
from pkgcore.ebuild.conditionals import DepSet
from pkgcore.ebuild.errors import DepsetParseError
from pkgcore.restrictions import boolean, packages, values
from sx import core, dz
from sx.runner import Harness

from . import c10

ID = "C09"
MANIFEST = {
    "technique": "(DZ) the real DepSet.parse / stringify_boolean / evaluate_depset are run on grammar-enumerated dependency strings (dependencies with transitive USE deps, LICENSE, SRC_URI with renames, REQUIRED_USE operators); the structure before and after USE evaluation is turned into a propositional formula over one Bool per distinct token ('this atom is satisfied') and the solver decides, for every flag set, that the evaluated structure is satisfied by exactly the same token valuations as the original read under that flag set; round trip and rejection of corrupted strings are checked structurally on the same strings",
    "level_text": "Bounded symbolic model checking: for every generated string (nesting depth <= 3, <= 3 flags, <= 4 tokens) and every subset of its flags the z3 query 'evaluated structure differs from the original under some token valuation' is UNSAT; every parsed string renders to text that parses to an equal structure with an equivalent formula; every single-token corruption (dropped/extra parenthesis, dangling operator, '|' token) raises DepsetParseError. Bounded by the grammar depth; all token valuations covered by the solver.",
    "level_note": "Trusted: my propositional reading (all-of = and, any-of = or with an emptied group vanishing i.e. satisfied, an enabled conditional group is one all-of member of its parent and a disabled one no member, ^^ exactly-one, ?? at-most-one, transitive USE deps [f?] [!f?] [f=] [!f=] per PMS). The real code runs concretely (strings are selectors), the solver ranges over token truth values.",
}
META = {
    "modules": ["pkgcore.ebuild.conditionals", "pkgcore.restrictions.boolean", "pkgcore.restrictions.packages", "pkgcore.ebuild.atom"],
    "functions": ["conditionals.DepSet.parse", "conditionals.DepSet.evaluate_depset", "conditionals.stringify_boolean/_internal_stringify_boolean", "boolean.base.evaluate_conditionals", "packages.Conditional.evaluate_conditionals", "atom.transitive_use_atom.evaluate_conditionals", "DepSet.__eq__/__str__"],
    "bounds": {"quick": "about 2500 strings from the grammar (depth <=3) x all subsets of <=3 flags, plus their single-token corruptions", "thorough": "about 20000 strings (seeded sample of the depth-3 universe)"},
    "outside": ["depth > 3", "more than 3 flags", "tristate_filter evaluation"],
    "assumptions": [],
    "selector_only": False,
}

TOKS = ["a/x", "b/y", "c/z", "d/w"]
FLAGS = ["u", "v", "w"]
_VARS = {}


def tokvar(s):
    if s not in _VARS:
        _VARS[s] = z3.Bool("tok_" + s)
    return _VARS[s]


class Uri:
    def __init__(self, uri, rename=None):
        self.uri, self.rename = uri, rename

    def __str__(self):
        return self.uri if self.rename is None else f"{self.uri} -> {self.rename}"

    def __eq__(self, o):
        return isinstance(o, Uri) and (self.uri, self.rename) == (o.uri, o.rename)

    def __hash__(self):
        return hash((self.uri, self.rename))


def parse(kind, s):
    if kind == "dep":
        return DepSet.parse(s, atom, transitive_use_atoms=True)
    if kind == "lic":
        return DepSet.parse(s, str)
    if kind == "uri":
        return DepSet.parse(s, Uri, element_func=Uri, allow_src_uri_file_renames=True)
    return c10.parse(s)


# ---------------------------------------------------------------- reference denotation
def _use_dep_eval(a, U):
    """reference evaluation of a (possibly transitive) atom under flag set U -> token string"""
    s = str(a)
    if "[" not in s:
        return s
    base, deps = s[:-1].split("[", 1)
    out = []
    for d in deps.split(","):
        if d.endswith("?"):
            f = d[:-1]
            if f.startswith("!"):
                if f[1:] not in U:
                    out.append("-" + f[1:])
            elif f in U:
                out.append(f)
        elif d.endswith("="):
            f = d[:-1]
            if f.startswith("!"):
                out.append(("-" if f[1:] in U else "") + f[1:])
            else:
                out.append(("" if f in U else "-") + f)
        else:
            out.append(d)
    return base + ("[" + ",".join(sorted(out)) + "]" if out else "")


def elems(node, U, kind):
    """present elements of a node under flag set U, as z3 terms (an emptied group vanishes)"""
    if isinstance(node, packages.Conditional):
        assert len(node.restriction.vals) == 1
        f = next(iter(node.restriction.vals))
        if (f in U) == node.restriction.negate:
            return []
        # PMS 8.2.3: an enabled use-conditional group is ONE member of its parent (an all-of of its contents);
        # a disabled one is no member at all
        es = [e for p in node.payload for e in elems(p, U, kind)]
        return [z3.And(es)] if es else []
    if kind == "req" and isinstance(node, values.ContainmentMatch):
        f = next(iter(node.vals))
        v = z3.Bool("flag_" + f)
        return [z3.Not(v) if node.negate else v]
    if isinstance(node, boolean.base) and not isinstance(node, atom):
        es = [e for c in node.restrictions for e in elems(c, U, kind)]
        if not es:
            return []
        if isinstance(node, boolean.OrRestriction):
            return [z3.Or(es)]
        if isinstance(node, boolean.JustOneRestriction):
            return [dz.exactly_one(es)]
        if isinstance(node, boolean.AtMostOneOfRestriction):
            return [dz.at_most_one(es)]
        return [z3.And(es)]
    if isinstance(node, atom):
        s = _use_dep_eval(node, U)
        toks = sorted(s.split("[")[1][:-1].split(",")) if "[" in s else []
        return [tokvar(s.split("[")[0] + ("[" + ",".join(toks) + "]" if toks else ""))]
    return [tokvar(str(node))]


def denote(ds, U, kind):
    return core._z3and(e for r in ds.restrictions for e in elems(r, U, kind))


def has_cond(node):
    if isinstance(node, packages.Conditional):
        return True
    if isinstance(node, atom):
        return any(t.endswith(("?", "=")) for t in (node.use or ()))
    if isinstance(node, boolean.base):
        return any(has_cond(c) for c in node.restrictions)
    return False


# ---------------------------------------------------------------- string grammar
def gen_strings(kind, rng, n):
    if kind == "req":
        leaf = lambda: rng.choice(["a", "b", "c", "!a", "!b"])
        ops = ["||", "^^", "??", "", "COND"]
        flags = ["a", "b", "c"]
    else:
        if kind == "dep":
            leaves = TOKS + ["a/x[u?]", "b/y[!v?]", "c/z[u=]", "d/w[!w=,k]", "!a/x", ">=b/y-1:2"]
        elif kind == "lic":
            leaves = ["GPL-2", "MIT", "BSD"]
        else:
            leaves = ["http://h/f", "http://h/f -> g", "mirror://m/x", "g"]
        leaf = lambda: rng.choice(leaves)
        ops = ["||", "", "COND"] if kind != "uri" else ["", "COND"]
        flags = FLAGS

    def group(d):
        op = rng.choice(ops)
        if op == "COND":
            head = rng.choice(["", "!"]) + rng.choice(flags) + "?"
        else:
            head = op
        k = rng.choice([0, 1, 1, 2, 2, 3]) if d < 3 else rng.choice([1, 2])
        body = [item(d + 1) for _ in range(k)]
        return (head + " ( " if head else "( ") + " ".join(body) + (" " if body else "") + ")"

    def item(d):
        if d >= 3 or rng.random() < 0.45:
            return leaf()
        return group(d)

    out = set()
    tries = 0
    while len(out) < n and tries < n * 20:
        tries += 1
        k = rng.choice([1, 1, 2, 3])
        out.add(" ".join(item(0) for _ in range(k)))
    return sorted(out)


def corruptions(s):
    w = s.split()
    out = []
    for i, t in enumerate(w):
        if t == ")":
            out.append(" ".join(w[:i] + w[i + 1:]))
            out.append(" ".join(w[:i] + [")", ")"] + w[i + 1:]))
        if t == "(":
            out.append(" ".join(w[:i] + w[i + 1:]))
        if t in ("||", "^^", "??") or t.endswith("?"):
            out.append(" ".join(w[:i + 1]))  # dangling operator at the end
    out.append(s + " |")
    out.append("| " + s)
    return out


class DepHarness(Harness):
    def run_custom(self, tier, regions):
        ob = self.ob
        D = dz.DZ()
        kind = ob["dkind"]
        n = 0
        for s in ob["strings"]:
            n += 1
            bad = self.check_one(kind, s, D, regions)
            if bad == "unknown":
                return D.result(ob, "inconclusive", reason="solver unknown")
            if bad:
                nat = self.body({"kind": kind, "s": s})
                return D.result(ob, "violated", cex={"cinp": {"kind": kind, "s": s}, "native": nat, "predicted": nat, "expected": {"problem": None}})
        return D.result(ob, "discharged", paths=n, nvars=len(_VARS), nontrivial=True)

    def check_one(self, kind, s, D, regions=()):
        try:
            ds = parse(kind, s)
        except DepsetParseError:
            # the generator only emits grammatical strings, except empty groups which PMS forbids
            return None if "( )" in s else "valid string rejected"
        if "( )" in s:
            return "empty group accepted"
        flags = sorted({t.strip("!?") for t in s.split() if t.endswith("?")} | {f for t in s.split() if "[" in t for f in [x.strip("!?=-") for x in t.split("[")[1][:-1].split(",")] if f in FLAGS})
        # round trip
        txt = str(ds)
        try:
            ds2 = parse(kind, txt)
        except DepsetParseError:
            return "rendered text does not parse: %r" % txt
        if ds2 != ds:
            return "round trip structure differs: %r" % txt
        subsets = [set(c) for k in range(len(flags) + 1) for c in itertools.combinations(flags, k)]
        for U in subsets:
            r, _ = D.check(denote(ds, U, kind) != denote(ds2, U, kind))
            if r == "sat":
                return "round trip meaning differs under %s: %r" % (sorted(U), txt)
            if r == "unknown":
                return "unknown"
            if kind == "req":
                continue
            ev = ds.evaluate_depset(U)
            if any(has_cond(x) for x in ev.restrictions):
                return "evaluated structure still has conditionals under %s: %s" % (sorted(U), ev)
            r, _ = D.check(denote(ev, set(), kind) != denote(ds, U, kind))
            if r == "sat":
                return "evaluation under %s changes meaning: %s" % (sorted(U), ev)
            if r == "unknown":
                return "unknown"
        for c in corruptions(s):
            try:
                parse(kind, c)
            except DepsetParseError:
                continue
            except Exception as e:
                return "corruption %r raised %s" % (c, type(e).__name__)
            # some corruptions are still grammatical (e.g. dropping a whole '( x )' pair member); only flag unbalanced ones
            if c.split().count("(") != c.split().count(")") or c.split()[-1] in ("||", "^^", "??") or c.split()[-1].endswith("?") or "|" in c.split():
                return "corrupted string accepted: %r" % c
        return None

    def body(self, cinp):
        D = dz.DZ()
        return {"problem": self.check_one(cinp["kind"], cinp["s"], D)}


def harness(ob):
    return DepHarness(ob)


UNIVERSE = {}


def obligations(tier, seed):
    rng = random.Random(seed)
    obs = []
    per = {"dep": 1200, "lic": 400, "uri": 300, "req": 600} if tier == "quick" else {"dep": 10000, "lic": 3000, "uri": 2000, "req": 5000}
    tot = 0
    for kind, n in per.items():
        ss = gen_strings(kind, rng, n)
        fixed = {"dep": ["|| ( u? ( a/x ) )", "|| ( ( a/x b/y ) c/z )", "|| ( u? ( a/x b/y ) c/z )", "u? ( ( v? ( a/x ) ) )", "u? ( || ( v? ( a/x ) b/y ) )", "( ( a/x ) )", "|| ( a/x )", "u? ( a/x[v?] )"],
                 "req": ["?? ( a )", "^^ ( a )", "?? ( a b )", "^^ ( a b c )", "a? ( ?? ( b c ) )", "|| ( a ^^ ( b c ) )"], "lic": ["|| ( GPL-2 MIT )"], "uri": ["u? ( http://h/f -> g )"]}[kind]
        ss = fixed + ss
        tot += len(ss)
        for i in range(0, len(ss), 25):
            obs.append({"oid": f"{kind}:{i}:{ss[i][:40]}", "kind": "depset", "dkind": kind, "strings": ss[i:i + 25]})
    UNIVERSE[tier] = {"strings": tot}
    return obs
