"""C31 - environment handed to the build daemon arrives exactly (quoting kernel)."""
import itertools
import os
import subprocess
import tempfile
import types

import z3

from pkgcore.ebuild import processor
from sx import core, lower
from sx.core import SymStr, sstr
from sx.runner import Harness
from sx.shims import patched

ID = "C31"
MANIFEST = {
    "technique": "symbolic execution (SX proxies + z3) of the real EbuildProcessor._generate_env_str (AST-lowered copy of the method compiled from /repo/src on every run) on environments whose values are strings of 1-4 symbolic characters over {a ' \" \\ $ ` newline tab space e-acute}, as scalars, list elements and non-exported variables; the emitted shell text is decoded by a model of bash's quoting rules (plain word, '...', $'...', (...) arrays with \"...\") executed on the symbolic text and compared with the original value on every path; the decoder is validated against the real /bin/bash on every run",
    "level_text": "Bounded symbolic model checking of the quoting kernel: for every environment shape (1-2 variables, scalar / 1-2 element list, exported / non-exported, value lengths 0-4) the solver proves for all character assignments over the 10-symbol alphabet that bash reads back exactly the value passed in and that the variable lands in the exported or the plain assignment group as requested. Partial: the byte/character count announced by send_env and the daemon side (read -N, locale) are outside what a solver can settle and are not claimed.",
    "level_note": "Trusted: SX engine, lowering, my bash-quoting decoder (validated at run time against the real bash on all strings of length <= 3 over the alphabet, as emitted by the real method). Counterexamples are replayed natively through the real method and the real bash.",
}
META = {
    "modules": ["pkgcore.ebuild.processor"],
    "functions": ["processor.EbuildProcessor._generate_env_str (lowered copy)"],
    "shims": ["lowered function: str/isinstance/len shims, f-strings/join/in lowered"],
    "bounds": {"quick": "values of length 0-3 (scalars) / 0-2 (list elements) over {a,',\",\\,$,`,\\n,\\t,space,e-acute}, 1-2 variables, exported and PKGCORE_NONEXPORTED_VARS", "thorough": "scalar values of length 4, lists of 2 elements of length <=3"},
    "outside": ["send_env/_run_depend_like_phase size announcement vs the daemon's read -N (bytes vs characters depends on the daemon locale)", "NUL bytes", "values longer than 4 characters", "the daemon's own processing of the transferred text"],
    "assumptions": ["bash quoting model: see decode_* (validated against /bin/bash each run)"],
    "selector_only": False,
}

ALPHA = "a'\"\\$`\n\t \u00e9"
_F = {}


def gen_env_str():
    if "f" not in _F:
        _F["f"] = lower.shadow_func("pkgcore.ebuild.processor", "EbuildProcessor._generate_env_str", shim_names=("str", "isinstance", "len"))
    return _F["f"]


class _Self:
    """what _generate_env_str reads from self; helper methods of the class are lowered copies as well
    (whatever helpers the current source defines are picked up by name from the class body)"""

    _readonly_vars = frozenset(["RO"])

    def __init__(self, lowered):
        import ast

        src = open(processor.__file__).read()
        cls = next(n for n in ast.parse(src).body if isinstance(n, ast.ClassDef) and n.name == "EbuildProcessor")
        for n in cls.body:
            if isinstance(n, ast.FunctionDef) and n.name.startswith("_") and not n.name.startswith("__") and n.name != "_generate_env_str":
                is_static = any(isinstance(d, ast.Name) and d.id == "staticmethod" for d in n.decorator_list)
                if not is_static:
                    continue
                if lowered:
                    f = lower.shadow_func("pkgcore.ebuild.processor", "EbuildProcessor." + n.name, shim_names=("str", "isinstance", "len"))
                else:
                    f = getattr(processor.EbuildProcessor, n.name)
                setattr(self, n.name, f)


_SELF = {}


def fake_self(lowered):
    if lowered not in _SELF:
        _SELF[lowered] = _Self(lowered)
    return _SELF[lowered]


class DecodeError(Exception):
    pass


def _is(c, ch):
    """char test that forks when symbolic"""
    r = core.ceq(c, ch)
    if isinstance(r, bool):
        return r
    return core.engine().decide(r)


def decode_word(items, i):
    """decode one shell word starting at items[i]; returns (value items, next index).  Model of bash for the
    forms _generate_env_str emits."""
    n = len(items)
    out = []
    if i < n and _is(items[i], "$") and i + 1 < n and _is(items[i + 1], "'"):
        i += 2
        while True:
            if i >= n:
                raise DecodeError("unterminated $'")
            c = items[i]
            if _is(c, "'"):
                return out, i + 1
            if _is(c, "\\"):
                if i + 1 >= n:
                    raise DecodeError("dangling backslash")
                d = items[i + 1]
                for esc, val in (("\\", "\\"), ("'", "'"), ('"', '"'), ("n", "\n"), ("t", "\t"), ("a", "\a")):
                    if _is(d, esc):
                        out.append(val)
                        break
                else:
                    if not isinstance(d, str) or d in "befrvxuUc01234567?E":
                        raise DecodeError("escape outside the model")
                    out += ["\\", d]
                i += 2
                continue
            out.append(c)
            i += 1
    if i < n and _is(items[i], "'"):
        i += 1
        while True:
            if i >= n:
                raise DecodeError("unterminated '")
            if _is(items[i], "'"):
                return out, i + 1
            out.append(items[i])
            i += 1
    if i < n and _is(items[i], '"'):
        i += 1
        while True:
            if i >= n:
                raise DecodeError('unterminated "')
            c = items[i]
            if _is(c, '"'):
                return out, i + 1
            if _is(c, "$") or _is(c, "`"):
                raise DecodeError("expansion inside double quotes")
            if _is(c, "\\"):
                if i + 1 >= n:
                    raise DecodeError("dangling backslash")
                d = items[i + 1]
                if _is(d, "$") or _is(d, "`") or _is(d, '"') or _is(d, "\\"):
                    out.append(d)
                elif _is(d, "\n"):
                    pass
                else:
                    out += ["\\", d]
                i += 2
                continue
            out.append(c)
            i += 1
    # bare word: up to the next blank; must not contain shell metacharacters
    while i < n and not _is(items[i], " "):
        c = items[i]
        for meta in "'\"\\$`\n\t();&|<>":
            if _is(c, meta):
                raise DecodeError("metacharacter in bare word")
        out.append(c)
        i += 1
    return out, i


def decode_line(line, names):
    """decode 'export A=.. B=..' / 'A=.. B=..' lines -> {name: (exported, value|[values])}"""
    res = {}
    for ln_no, ln in enumerate(_split_lines(line)):
        items = list(core.items_of(ln))
        i = 0
        exported = False
        if "".join(c if isinstance(c, str) else "?" for c in items[:7]) == "export ":
            exported = True
            i = 7
        while i < len(items):
            # NAME=
            j = i
            name = ""
            while j < len(items) and isinstance(items[j], str) and items[j] != "=":
                name += items[j]
                j += 1
            if j >= len(items) or name not in names:
                raise DecodeError("cannot find assignment at %d" % i)
            i = j + 1
            if i < len(items) and _is(items[i], "("):
                i += 1
                vals = []
                while True:
                    if i >= len(items):
                        raise DecodeError("unterminated array")
                    if _is(items[i], ")"):
                        i += 1
                        break
                    if _is(items[i], " "):
                        i += 1
                        continue
                    # [k]=
                    if not _is(items[i], "["):
                        raise DecodeError("array element without index")
                    while not _is(items[i], "="):
                        i += 1
                    v, i = decode_word(items, i + 1)
                    vals.append(v)
                res[name] = (exported, vals)
            else:
                v, i = decode_word(items, i)
                res[name] = (exported, v)
            if i < len(items):
                if not _is(items[i], " "):
                    raise DecodeError("garbage after word")
                i += 1
    return res


def _split_lines(text):
    """the emitted text has at most two lines (plain assignments, then exports) joined by a concrete newline
    that is not inside a value; values may contain newlines, so split on structure: 'export ' after a newline"""
    items = list(core.items_of(text))
    conc = "".join(c if isinstance(c, str) else "\x00" for c in items)
    k = conc.find("\nexport ")
    if k > 0 and not conc.startswith("export "):
        return [core.mk(items[:k]), core.mk(items[k + 1:])]
    return [text]


def bash_read(line, names, arrays=()):
    """what the real bash ends up with after eval'ing the line"""
    script = 'eval "$(cat "$1")" 2>/dev/null || { echo EVALFAIL; exit 0; }\n'
    for n in names:
        if n in arrays:
            script += f'printf "%s\\0" "{n}" "$(declare -p {n} 2>/dev/null | cut -c9-11)" "${{#{n}[@]}}"; for x in "${{{n}[@]}}"; do printf "%s\\0" "$x"; done\n'
        else:
            script += f'printf "%s\\0" "{n}" "$(declare -p {n} 2>/dev/null | cut -c9-11)" "${n}"\n'
    with tempfile.NamedTemporaryFile("w", suffix=".env", delete=False) as f:
        f.write(line)
        path = f.name
    try:
        out = subprocess.run(["bash", "--norc", "-c", script, "x", path], capture_output=True, env={"PATH": os.environ.get("PATH", "/usr/bin:/bin"), "LC_ALL": "C.UTF-8"}).stdout.decode("utf-8", "replace")
    finally:
        os.unlink(path)
    return out


class EnvHarness(Harness):
    def setup(self, eng):
        ob = self.ob
        inp = {"vars": []}
        for vi, v in enumerate(ob["vars"]):
            if v["kind"] == "list":
                inp["vars"].append([SymStr([eng.char(f"v{vi}_{ei}_{k}", ALPHA) for k in range(L)]) if L else "" for ei, L in enumerate(v["lens"])])
            else:
                L = v["lens"][0]
                inp["vars"].append(SymStr([eng.char(f"v{vi}_{k}", ALPHA) for k in range(L)]) if L else "")
        return inp

    def _env(self, inp):
        ob = self.ob
        env = {}
        nonexp = []
        for v, val in zip(ob["vars"], inp["vars"]):
            env[v["name"]] = val
            if not v["exported"]:
                nonexp.append(v["name"])
        if nonexp:
            env["PKGCORE_NONEXPORTED_VARS"] = " ".join(nonexp)
        return env

    def body(self, inp):
        ob = self.ob
        names = [v["name"] for v in ob["vars"]]
        env = self._env(inp)
        if core.ENG is not None:
            line = gen_env_str()(fake_self(True), env)
            try:
                dec = decode_line(line, names)
            except DecodeError as e:
                return {"decoded": "error"}
            out = {}
            for v in ob["vars"]:
                if v["name"] not in dec:
                    return {"decoded": "missing " + v["name"]}
                ex, val = dec[v["name"]]
                out[v["name"]] = {"exported": ex, "value": [core.mk(x) for x in val] if v["kind"] == "list" else core.mk(val)}
            return {"decoded": out}
        line = processor.EbuildProcessor._generate_env_str(fake_self(False), env)
        raw = bash_read(line, names, [v["name"] for v in ob["vars"] if v["kind"] == "list"])
        if raw.startswith("EVALFAIL") or not raw:
            return {"decoded": "error"}
        f = raw.split("\0")
        out = {}
        i = 0
        for v in ob["vars"]:
            if i + 2 >= len(f) + 0 and v["kind"] != "list":
                return {"decoded": "error"}
            nm, decl = f[i], f[i + 1]
            ex = "x" in decl
            if v["kind"] == "list":
                cnt = int(f[i + 2])
                vals = f[i + 3:i + 3 + cnt]
                i += 3 + cnt
                out[nm] = {"exported": ex, "value": vals}
            else:
                out[nm] = {"exported": ex, "value": f[i + 2]}
                i += 3
        return {"decoded": out}

    def prop(self, inp, obs):
        if not isinstance(obs["decoded"], dict):
            return False
        conds = []
        for v, val in zip(self.ob["vars"], inp["vars"]):
            d = obs["decoded"][v["name"]]
            conds.append(z3.BoolVal(d["exported"] == v["exported"]))
            conds.append(core.eq_term(d["value"], list(val) if v["kind"] == "list" else val))
        return z3.And(conds)

    def region(self, name, inp):
        raise KeyError(name)


class TransferHarness(Harness):
    """two consecutive send_env() transfers through a file: the file handed to the daemon must hold exactly the
    text generated for THIS transfer; lengths are solver-chosen selectors (selector-only part of the check)"""

    def setup(self, eng):
        return {"L1": eng.int("L1", 0, 6), "L2": eng.int("L2", 0, 6), "inline": eng.bool("inline_first")}

    def body(self, inp):
        import shutil

        L1, L2, inline = (core.fix(inp[k]) for k in ("L1", "L2", "inline")) if core.ENG is not None else (inp["L1"], inp["L2"], inp["inline"])
        td = tempfile.mkdtemp(prefix="c31-")
        try:
            proc = object.__new__(processor.EbuildProcessor)
            proc._readonly_vars = frozenset()
            sent = []
            proc.write = lambda s, **kw: sent.append(s)
            proc.expect = lambda *a, **kw: True
            ok = True
            detail = None
            for n, L in enumerate((L1, L2)):
                env = {"V": "x" * L, "W": "y z" * (L // 2)}
                data = processor.EbuildProcessor._generate_env_str(proc, env)
                del sent[:]
                use_file = not (inline and n == 0)
                processor.EbuildProcessor.send_env(proc, env, tmpdir=td if use_file else None)
                if use_file:
                    path = sent[0].split(" ", 2)[2].strip()
                    got = open(path).read()
                    if got != data or not sent[0].startswith("start_receiving_env file "):
                        ok, detail = False, {"transfer": n, "file_has": got, "expected": data}
                        break
                else:
                    want = f"start_receiving_env bytes {len(data)}\n{data}"
                    if sent[0] != want:
                        ok, detail = False, {"transfer": n, "sent": sent[0], "expected": want}
                        break
            return {"ok": ok, "detail": detail, "lens": [L1, L2, inline]}
        finally:
            shutil.rmtree(td, ignore_errors=True)

    def prop(self, inp, obs):
        return obs["ok"]


def harness(ob):
    return TransferHarness(ob) if ob.get("kind") == "transfer" else EnvHarness(ob)


def selfcheck(tier, seed):
    """validate the decoder against the real bash on what the real method emits for all short strings"""
    n = 0
    for L in (0, 1, 2, 3):
        for chars in itertools.product(ALPHA, repeat=L):
            val = "".join(chars)
            if L == 3 and (hash(val) + seed) % 5:
                continue
            env = {"K": val}
            line = processor.EbuildProcessor._generate_env_str(fake_self(False), env)
            raw = bash_read(line, ["K"])
            try:
                dec = decode_line(line, ["K"])["K"]
                model = "".join(dec[1])
            except DecodeError:
                model = None
            real = None if raw.startswith("EVALFAIL") or not raw else raw.split("\0")[2]
            n += 1
            if model is not None and model != real:
                raise AssertionError(f"bash decoder model disagrees with /bin/bash on {line!r}: model {model!r}, bash {real!r}")
    return {"decoder_vs_bash_strings": n}


UNIVERSE = {}


def obligations(tier, seed):
    obs = []
    top = 3 if tier == "quick" else 4
    for L in range(0, top + 1):
        for exported in (True, False):
            obs.append({"oid": f"scalar:len={L}|exported={exported}", "vars": [{"name": "K", "kind": "scalar", "lens": [L], "exported": exported}], "max_paths": 400000, "max_s": 1500})
    ltop = 2 if tier == "quick" else 3
    for l1 in range(0, ltop + 1):
        obs.append({"oid": f"list1:len={l1}", "vars": [{"name": "K", "kind": "list", "lens": [l1], "exported": True}], "max_paths": 400000, "max_s": 1500})
        for l2 in range(0, 2):
            obs.append({"oid": f"list2:len={l1},{l2}", "vars": [{"name": "K", "kind": "list", "lens": [l1, l2], "exported": l2 == 0}], "max_paths": 400000, "max_s": 1500})
    for l1, l2 in ((1, 1), (2, 1), (1, 2)):
        for e1, e2 in ((True, False), (False, False), (True, True)):
            obs.append({"oid": f"two:len={l1},{l2}|exp={e1},{e2}", "vars": [{"name": "A", "kind": "scalar", "lens": [l1], "exported": e1}, {"name": "B", "kind": "scalar", "lens": [l2], "exported": e2}], "max_paths": 400000, "max_s": 1500})
    for l1, l2 in ((1, 1), (2, 0), (0, 2)):
        # a variable whose name is contained in the name of a non-exported one (and the other way round)
        obs.append({"oid": f"names:P,PV|len={l1},{l2}", "vars": [{"name": "P", "kind": "scalar", "lens": [l1], "exported": True}, {"name": "PV", "kind": "scalar", "lens": [l2], "exported": False}], "max_paths": 400000, "max_s": 1500})
        obs.append({"oid": f"names:USE,S|len={l1},{l2}", "vars": [{"name": "USE", "kind": "scalar", "lens": [l1], "exported": False}, {"name": "S", "kind": "scalar", "lens": [l2], "exported": True}], "max_paths": 400000, "max_s": 1500})
    obs.append({"oid": "transfer:two-consecutive", "kind": "transfer", "max_paths": 1000})
    UNIVERSE[tier] = {"shapes": len(obs)}
    return obs
