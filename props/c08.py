"""C08 - repository queries return exactly the matching packages."""
import itertools

from pkgcore.ebuild.atom import atom
from pkgcore.repository import multiplex, util
from pkgcore.restrictions import packages, values
from sx import core
from sx.runner import Harness

ID = "C08"
MANIFEST = {
    "technique": "bounded model checking with solver-decided choice (SX engine): the presence of each (category, package, version) cell of one or two in-memory repositories, the leaf restrictions (atom, category/package exact/glob/regex/containment matchers with negation on value and wrapper), the boolean shape combining up to three leaves (And/Or/nested, negated nodes) and the query mode (versioned/unversioned, sorted, stacked) are symbolic selectors; the engine forks over every feasible combination, runs the real itermatch (with _identify_candidates/_fast_identify_candidates/_cat_filter/_package_filter pruning) and compares with a brute-force filter of all packages by restrict.match",
    "level_text": "Bounded model checking, exhaustive within the bound: 2^6 contents of a 2x2x2 repository (6 free presence bits, the other two tied to them; quick: 4 free bits) x 21 leaf restrictions x 9 boolean shapes x 4 query modes: itermatch yields every package the restriction matches, nothing else, each exactly once; unversioned queries yield exactly the matching category/package pairs; sorted queries are in sorter order; a stack of two repositories yields the union. Selector-dominated: the solver enumerates repository contents and restriction shapes.",
    "level_note": "selector-only harness (labelled as such). The oracle is restrict.match itself applied to every package (C04/C06 cover match); what is checked here is the candidate pruning.",
}
META = {
    "modules": ["pkgcore.repository.prototype", "pkgcore.repository.multiplex", "pkgcore.repository.util", "pkgcore.restrictions.util"],
    "functions": ["prototype.tree.itermatch/_internal_match/_identify_candidates/_fast_identify_candidates/_cat_filter/_package_filter", "multiplex.tree.itermatch", "util.SimpleTree"],
    "bounds": {"quick": "repository cells: 2 categories x 2 packages x {1,2} versions with 4 symbolic presence bits (the others tied to them); 21 leaves; 9 shapes over <=3 leaves (leaf a per obligation, leaf b symbolic, leaf c = a except for and(cat=dev-util, or(b, c)) where c varies too); modes versioned/unversioned/sorted/stacked", "thorough": "6 presence bits, leaf c symbolic over every third leaf"},
    "outside": ["repositories with more than 2 categories / 2 packages", "filtered.tree and caching_repo (C07/C13)", "restrictions on attributes other than category/package/version"],
    "assumptions": [],
    "selector_only": True,
}

CATS = ["dev-util", "dev-lib"]
PKGS = ["diffball", "bsdiff"]
VERS = ["1.0", "2.0"]


def leaves():
    P, V = packages.PackageRestriction, values
    return [
        ("atom:dev-util/diffball", lambda: atom("dev-util/diffball")), ("atom:>=dev-util/diffball-2", lambda: atom(">=dev-util/diffball-2")), ("atom:dev-lib/bsdiff", lambda: atom("dev-lib/bsdiff")),
        ("cat=dev-util", lambda: P("category", V.StrExactMatch("dev-util"))), ("cat!=dev-util", lambda: P("category", V.StrExactMatch("dev-util", negate=True))), ("not(cat=dev-lib)", lambda: P("category", V.StrExactMatch("dev-lib"), negate=True)),
        ("cat~dev-*", lambda: P("category", V.StrGlobMatch("dev-"))), ("cat~*lib", lambda: P("category", V.StrGlobMatch("lib", prefix=False))), ("cat re util", lambda: P("category", V.StrRegex("util"))), ("cat !re util", lambda: P("category", V.StrRegex("util", negate=True))),
        ("pkg=diffball", lambda: P("package", V.StrExactMatch("diffball"))), ("pkg!=diffball", lambda: P("package", V.StrExactMatch("diffball", negate=True))), ("pkg~bs*", lambda: P("package", V.StrGlobMatch("bs"))), ("pkg re diff", lambda: P("package", V.StrRegex("diff"))), ("not(pkg re diff)", lambda: P("package", V.StrRegex("diff"), negate=True)),
        ("cat in {dev-lib,x}", lambda: P("category", V.ContainmentMatch(frozenset(["dev-lib", "x"])))), ("ver=2.0", lambda: P("fullver", V.StrExactMatch("2.0"))), ("ver!=2.0", lambda: P("fullver", V.StrExactMatch("2.0", negate=True))),
        ("true", lambda: packages.AlwaysTrue), ("false", lambda: packages.AlwaysFalse), ("cat=nonexistent", lambda: P("category", V.StrExactMatch("nonexistent"))),
    ]


SHAPES = ["a", "and(a,b)", "or(a,b)", "or(a,and(b,c))", "and(a,or(b,c))", "not and(a,b)", "not or(a,b)", "or(and(a,b),c)", "and(or(a,b),or(b,c))"]


def build(shape, a, b, c):
    A, O = packages.AndRestriction, packages.OrRestriction
    return {
        "a": lambda: a, "and(a,b)": lambda: A(a, b), "or(a,b)": lambda: O(a, b), "or(a,and(b,c))": lambda: O(a, A(b, c)), "and(a,or(b,c))": lambda: A(a, O(b, c)),
        "not and(a,b)": lambda: A(a, b, negate=True), "not or(a,b)": lambda: O(a, b, negate=True), "or(and(a,b),c)": lambda: O(A(a, b), c), "and(or(a,b),or(b,c))": lambda: A(O(a, b), O(b, c)),
    }[shape]()


class QueryHarness(Harness):
    active = frozenset()

    def region(self, name, inp):
        self.active = set(self.active) | {name}
        return False

    def setup(self, eng):
        ob = self.ob
        L = len(leaves())
        inp = {"cells": [eng.bool(f"cell{i}") for i in range(ob["ncells"])], "b": eng.int("leaf_b", 0, L - 1)}
        if ob["symc"]:
            inp["c"] = eng.int("leaf_c", 0, (L - 1) // 3)
        return inp

    def body(self, inp):
        ob = self.ob
        c = core.fix(inp) if core.ENG is not None else inp
        LV = leaves()
        allcells = [(ct, p, v) for ct in CATS for p in PKGS for v in VERS]
        # quick: the second version of the second package pair is tied to the first (6 free bits)
        cells = list(c["cells"]) + [c["cells"][i % len(c["cells"])] for i in range(len(allcells) - len(c["cells"]))]
        d1, d2 = {}, {}
        for i, ((ct, p, v), on) in enumerate(zip(allcells, cells)):
            if on:
                (d1 if (i % 3 or ob["mode"] != "stacked") else d2).setdefault(ct, {}).setdefault(p, []).append(v)
        r1 = util.SimpleTree(d1, repo_id="r1")
        repos = [r1]
        if ob["mode"] == "stacked":
            repos.append(util.SimpleTree(d2, repo_id="r2"))
            repo = multiplex.tree(*repos)
        else:
            repo = r1
        a = LV[ob["a"]][1]()
        b = LV[c["b"]][1]()
        ci = c["c"] * 3 if "c" in c else ob["a"]
        cc = LV[ci][1]()
        try:
            restrict = build(ob["shape"], a, b, cc)
        except Exception as e:
            return {"skip": "cannot build: " + type(e).__name__}
        allpk = [p for r in repos for p in r]
        out = {"restrict": "%s[%s,%s,%s]" % (ob["shape"], LV[ob["a"]][0], LV[c["b"]][0], LV[ci][0]), "repo": [d1, d2]}
        used = [LV[ob["a"]][0]] + ([LV[c["b"]][0]] if "b" in ob["shape"] else []) + ([LV[ci][0]] if "c" in ob["shape"] else [])
        if "wrapper-negated-leaf-in-boolean" in self.active and ob["shape"] != "a" and any(u.startswith("not(") for u in used):
            return {"skip": "known finding region"}
        try:
            if ob["mode"] == "unversioned":
                from pkgcore.ebuild.cpv import UnversionedCPV

                # callers supply the class of the unversioned objects (the default hands bare tuples to match())
                got = sorted((p.category, p.package) for p in repo.itermatch(restrict, versioned=False, raw_pkg_cls=UnversionedCPV))
                want = sorted({(p.category, p.package) for p in allpk if restrict.match(p)})
                # an unversioned query cannot evaluate version restrictions: skip those
                if "ver" in out["restrict"] or ">=" in out["restrict"]:
                    return {"skip": "version restriction in unversioned query"}
                out["got"], out["want"] = [list(x) for x in got], [list(x) for x in want]
            elif ob["mode"] == "sorted":
                got = [p.cpvstr for p in repo.itermatch(restrict, sorter=sorted)]
                out["got"], out["want"] = got, [p.cpvstr for p in sorted(p for p in allpk if restrict.match(p))]
            else:
                got = sorted(p.cpvstr for p in repo.itermatch(restrict))
                out["got"], out["want"] = got, sorted(p.cpvstr for p in allpk if restrict.match(p))
        except NotImplementedError:
            return {"skip": "normal form not implemented for this negation"}
        return out

    def prop(self, inp, obs):
        if "skip" in obs:
            return True
        return obs["got"] == obs["want"]


def harness(ob):
    return QueryHarness(ob)


UNIVERSE = {}


def obligations(tier, seed):
    obs = []
    L = len(leaves())
    for shape in SHAPES:
        for mode in ("versioned", "unversioned", "sorted", "stacked"):
            for a in range(L):
                if tier == "quick" and mode in ("sorted", "stacked") and a % 3:
                    continue
                # quick: the third leaf varies only where an exact category meets two different package matchers (candidate pruning by exact keys)
                symc = shape.count("c") > 0 and (tier != "quick" or (shape == "and(a,or(b,c))" and mode == "versioned" and leaves()[a][0] == "cat=dev-util"))
                obs.append({"oid": f"{shape}|{mode}|a={leaves()[a][0]}", "shape": shape, "mode": mode, "a": a, "symc": symc, "ncells": 4 if tier == "quick" else 6, "max_paths": 3000000, "max_s": 2400})
    UNIVERSE[tier] = {"obligations": len(obs)}
    return obs
