"""C40 - keywording requests only name valid, narrowed, not-yet-present arches."""
import itertools

from pkgcore.ebuild import keywording as kw
from pkgcore.ebuild.atom import atom
from pkgcore.ebuild.cpv import VersionedCPV
from sx import core
from sx.runner import Harness

ID = "C40"
MANIFEST = {
    "technique": "bounded model checking with solver-decided choice (SX engine): the keyword state of every arch (absent, ~arch, arch, -arch) on each of two versions of a package plus a prefix arch, the request lines (specs and keyword lists with the * ^ - sentinels, unknown arches), and the options stable / only_new / allarches / cc_arches / filter_arch are symbolic selectors; the engine forks over every feasible combination, runs the real match_packages / suggested_keywords / select_best_version / can_stabilize_allarches and checks every yielded request (or raised exception) against the stated constraints",
    "level_text": "Bounded model checking, exhaustive within the bound: 2 versions x 3 arches (4 keyword states each) + one prefix arch, 2-line requests from a 10-entry line menu, all option combinations: every arch named is known to the repository, lies inside cc_arches and filter_arch (plus the all-arches candidates) when these are given, is not already present when only_new is set, no prefix keyword is ever suggested, stabilization suggestions are testing on the package and stable on another version, keywording suggestions are present on another version and absent here, and stabilization specs other than an unslotted =cpv raise PackageInvalid. Selector-only.",
    "level_note": "selector-only harness (labelled as such). The repository is a small object with match/itermatch/known_arches over real VersionedCPV packages carrying keywords.",
}
META = {
    "modules": ["pkgcore.ebuild.keywording"],
    "functions": ["keywording.match_packages", "keywording.suggested_keywords", "keywording.select_best_version", "keywording.filter_prefix_keywords", "keywording.can_stabilize_allarches"],
    "bounds": {"quick": "keyword states of (amd64, x86) on two versions symbolic (arm fixed per obligation), request lines from a 10-entry menu (2 lines), options symbolic", "thorough": "all three arches symbolic"},
    "outside": ["keyword states beyond {absent, ~, stable, -} x 3 arches + one prefix arch + one arch unknown to the repository", "more than 2 versions / 2 packages", "live ebuilds beyond one variant", "the CLI layers above match_packages"],
    "assumptions": [],
    "selector_only": True,
}

ARCHES = ["amd64", "x86", "arm"]
STATES = [None, "~", "", "-"]
LINES = [
    ("=cat/pkg-2", []), ("=cat/pkg-2", ["*"]), ("=cat/pkg-2", ["amd64", "x86"]), ("=cat/pkg-1", ["*"]), ("cat/pkg", ["*"]), ("cat/pkg", ["~arm", "^"]), ("=cat/pkg-2", ["^"]), ("=cat/pkg-2", ["-"]),
    ("=cat/pkg-2", ["bogus"]), ("=cat/pkg-2:0", ["amd64"]), ("=cat/other-1", ["*"]), (">=cat/pkg-1", ["x86", "*"]),
]


class Pkg(VersionedCPV):
    __slots__ = ("keywords", "live", "slot")

    def __init__(self, cpv, keywords):
        super().__init__(cpv)
        object.__setattr__(self, "keywords", tuple(keywords))
        object.__setattr__(self, "live", False)
        object.__setattr__(self, "slot", "0")


class Repo:
    known_arches = frozenset(ARCHES + ["x86-macos"])

    def __init__(self, pkgs):
        self.pkgs = pkgs

    def match(self, r):
        return [p for p in self.pkgs if r.match(p)]

    itermatch = match


class KwHarness(Harness):
    def setup(self, eng):
        ob = self.ob
        inp = {"kw": [[eng.int(f"k{v}_{a}", 0, 3 if a == 0 or ob["narch"] == 3 else 2) for a in range(ob["narch"])] for v in range(2)], "l1": eng.int("line1", 0, len(LINES) - 1), "l2": ob["l2"]}
        inp["cc"] = ob["cc"]
        for o in ("only_new", "allarches", "filt"):
            inp[o] = eng.bool(o)
        return inp

    def body(self, inp):
        ob = self.ob
        c = core.fix(inp) if core.ENG is not None else inp
        stable = ob["stable"]
        pk = []
        for v in range(2):
            kws = []
            for a, arch in enumerate(ARCHES):
                st = STATES[c["kw"][v][a]] if a < ob["narch"] else STATES[(ob["arm"] + v) % 4]
                if st is not None:
                    kws.append(st + arch)
            if c["cc"] != c["filt"]:
                kws.append("~x86-macos" if v else "x86-macos")
            if ob.get("stale"):
                # an arch dropped from arch.list but still carried by the ebuilds
                kws.append("~oldarch" if v else "oldarch")
            pk.append(Pkg(f"cat/pkg-{v + 1}", kws))
        pk.append(Pkg("cat/other-1", ["~amd64"]))
        repo = Repo(pk)
        req = [(atom(LINES[i][0]), LINES[i][1]) for i in (c["l1"], c["l2"])]
        cc = ("amd64", "arm") if c["cc"] else ()
        filt = ("x86", "amd64") if c["filt"] else ()
        out = {"stable": stable, "req": [list(LINES[i]) for i in (c["l1"], c["l2"])], "opts": {k: c[k] for k in ("only_new", "allarches", "cc", "filt")}, "pkgs": {p.cpvstr: list(p.keywords) for p in pk}}
        res, exc = [], None
        try:
            for r in kw.match_packages(repo, req, stable=stable, cc_arches=cc, only_new=c["only_new"], filter_arch=filt, allarches=c["allarches"]):
                res.append((r.pkg.cpvstr, list(r.keywords)))
        except (kw.PackageMatchException, kw.KeywordNoneLeft) as e:
            exc = type(e).__name__
        out["result"], out["exc"] = res, exc
        problems = []
        bykey = {p.cpvstr: p for p in pk}
        for cpv, kws in res:
            p = bykey[cpv]
            others = [o for o in pk if o.key == p.key and o is not p]
            if stable:
                cand = {k[1:] for k in p.keywords if k.startswith("~")} & {k for o in others + [p] for k in o.keywords if k[0] not in "-~"}
            else:
                cand = {k.lstrip("~") for o in others + [p] for k in o.keywords if k[0] != "-"} - {k.lstrip("~-") for k in p.keywords}
            cand = {k for k in cand if "-" not in k}
            written = {x.lstrip("~") for ln in out["req"] for x in ln[1] if x not in ("*", "^", "-")}
            for k in kws:
                if k not in repo.known_arches:
                    problems.append(f"{cpv}: unknown arch {k}")
                if "-" in k:
                    problems.append(f"{cpv}: prefix keyword {k}")
                aa = c["allarches"] and stable and filt and k in cand  # documented: all-arches re-adds every candidate on top of the narrowing
                if cc and k not in cc and not aa:
                    problems.append(f"{cpv}: {k} outside cc_arches")
                if filt and k not in filt and not (c["allarches"] and stable and k in cand):
                    problems.append(f"{cpv}: {k} outside filter_arch")
                if c["only_new"] and not (c["allarches"] and stable and filt and k in cand) and (k in p.keywords or (not stable and "~" + k in p.keywords)):
                    problems.append(f"{cpv}: {k} already present with only_new")
                uses_same = any("^" in ln[1] for ln in out["req"])
                if k not in written and k not in cand and k not in cc and not uses_same:
                    problems.append(f"{cpv}: suggested {k} is not a valid {'stabilization' if stable else 'keywording'} candidate")
        if stable:
            for spec, _ in out["req"]:
                a = atom(spec)
                if (a.op != "=" or a.slot) and exc is None:
                    # lines before an invalid spec may already have been yielded, but the request must be rejected
                    problems.append(f"stabilization accepted spec {spec}")
                    break
        out["problems"] = problems
        return out

    def prop(self, inp, obs):
        return not obs["problems"]


def harness(ob):
    return KwHarness(ob)


UNIVERSE = {}


def obligations(tier, seed):
    obs = []
    for stable in (True, False):
        for arm in ((1, 2) if tier == "quick" else range(4)):
            for l2 in ((1, 5, 9) if tier == "quick" else range(len(LINES))):
                for cc in (True, False):
                    for stale in ((arm == 2,) if tier == "quick" else (False, True)):
                        obs.append({"oid": f"stable={stable}|arm-state={arm}|line2={LINES[l2]}|cc={cc}|stale-arch={stale}", "stable": stable, "arm": arm, "l2": l2, "cc": cc, "stale": stale, "narch": 2, "max_paths": 5000000, "max_s": 3000})
    UNIVERSE[tier] = {"obligations": len(obs)}
    return obs
