"""C48 - cached metadata is used only while it is still valid."""
import itertools

import z3

from pkgcore import cache as cache_mod
from pkgcore.ebuild import ebuild_src, eclass_cache
from sx import core
from sx.core import SymBool, SymInt, SymStr
from sx.runner import Harness

ID = "C48"
MANIFEST = {
    "technique": "symbolic execution (SX proxies + z3) of the real package_factory._get_metadata -> cache.base.validate_entry -> eclass_cache.base.rebuild_cache_entry chain on a cache entry whose recorded ebuild checksum/mtime, recorded per-eclass checksum, mtime and directory, and the current values of all of them are unbounded symbolic integers / symbolic characters, with eclass existence and the presence of INHERIT and _eclasses_ symbolic; regeneration by the ebuild daemon is stubbed; 'cache used <=> every recorded fact equals the current one, else regenerated and the stale entry deleted' asserted on every path",
    "level_text": "Bounded symbolic model checking of cache validation: for md5-style and mtime/eclassdir-style entries with 0-2 recorded eclasses and one or two stacked caches the solver proves for all recorded and current checksum/mtime values, all eclass locations and all presence combinations that the cached metadata is returned exactly when it is still valid, and that otherwise regeneration is invoked and the stale entry is deleted from a writable cache. Unbounded in the integer facts, bounded in the number of eclasses and caches.",
    "level_note": "Stubs (part of the claim): package_factory._update_metadata (daemon regeneration) returns a marker; chksum.LazilyHashedPath(pkg.path) returns the symbolic current ebuild facts; the cache is a minimal subclass of pkgcore.cache.base that keeps an in-memory entry and inherits the real validate_entry; eclass data objects are attribute bags. That regenerated metadata is right is C49 (not claimed). Counterexamples are replayed natively with plain values.",
}
META = {
    "modules": ["pkgcore.cache", "pkgcore.ebuild.eclass_cache", "pkgcore.ebuild.ebuild_src"],
    "functions": ["cache.base.validate_entry", "eclass_cache.base.rebuild_cache_entry", "ebuild_src.package_factory._get_metadata"],
    "stubs": ["package_factory._update_metadata", "ebuild_src.chksum.LazilyHashedPath", "in-memory cache subclass (getitem/delitem)", "eclass data attribute bags"],
    "bounds": {"quick": "chf type in {md5, mtime}; 0-2 recorded eclasses, each recording (md5) or (eclassdir, mtime); eclass existence, INHERIT presence, _eclasses_ presence symbolic; all recorded/current values symbolic Ints, directories 1 symbolic character; 1-2 stacked caches, writable/readonly", "thorough": "same with 3 eclasses"},
    "outside": ["correctness of regenerated metadata (C49)", "cache (de)serialisation (C27)", "more than 3 recorded eclasses"],
    "assumptions": [],
    "selector_only": False,
}


class Bag:
    def __init__(self, **kw):
        self.__dict__.update(kw)


class MemCache(cache_mod.base):
    """in-memory cache with the real validate_entry"""

    def __init__(self, chf_type, entry, readonly):
        self.chf_type = chf_type
        self._chf_key = "_%s_" % chf_type
        self.entry = entry
        self.readonly = readonly
        self.deleted = 0

    def __getitem__(self, k):
        if self.entry is None:
            raise KeyError(k)
        return self.entry

    def __delitem__(self, k):
        self.entry = None
        self.deleted += 1


class Factory:
    def __init__(self, caches, ecache):
        self._cache = caches
        self._ecache = ecache
        self.regen = 0

    def _update_metadata(self, pkg, ebp=None):
        self.regen += 1
        return {"REGENERATED": True}


class CacheHarness(Harness):
    def setup(self, eng):
        ob = self.ob
        inp = {"rec": eng.int("rec_chf"), "cur": eng.int("cur_chf"), "has_chf": eng.bool("has_chf"), "has_inherit": eng.bool("has_inherit"), "has_ecl": eng.bool("has_eclasses"), "ecl": []}
        for i in range(ob["necl"]):
            e = {"exists": eng.bool(f"e{i}_exists")}
            for f in ob["facts"]:
                if f == "eclassdir":
                    e["rec_" + f] = SymStr((eng.char(f"e{i}_rec_dir", "xy"),))
                    e["cur_" + f] = SymStr((eng.char(f"e{i}_cur_dir", "xy"),))
                else:
                    e["rec_" + f] = eng.int(f"e{i}_rec_{f}")
                    e["cur_" + f] = eng.int(f"e{i}_cur_{f}")
            inp["ecl"].append(e)
        if ob["ncache"] == 2:
            inp["rec2"] = eng.int("rec2_chf")
        return inp

    def _entry(self, inp, rec):
        ob = self.ob
        entry = {"DESCRIPTION": "d"}
        if inp["has_chf"]:
            entry["_%s_" % ob["chf"]] = rec
        if inp["has_inherit"]:
            entry["INHERIT"] = "e0"
        if inp["has_ecl"]:
            entry["_eclasses_"] = [("e%d" % i, tuple((f, e["rec_" + f]) for f in ob["facts"])) for i, e in enumerate(inp["ecl"])]
        return entry

    def body(self, inp):
        ob = self.ob
        ec = eclass_cache.base()
        cur = {}
        for i, e in enumerate(inp["ecl"]):
            if e["exists"]:
                cur["e%d" % i] = Bag(**{f: e["cur_" + f] for f in ob["facts"]})
        ec._eclasses = cur
        caches = [MemCache(ob["chf"], self._entry(inp, inp["rec"]), ob["readonly"])]
        if ob["ncache"] == 2:
            caches.append(MemCache(ob["chf"], self._entry(inp, inp["rec2"]), False))
        fac = Factory(caches, ec)
        pkg = Bag(path="/repo/cat/pkg/pkg-1.ebuild", cpvstr="cat/pkg-1")
        hashitem = Bag(**{ob["chf"]: inp["cur"]})
        from sx.shims import patched

        with patched((ebuild_src, "chksum", Bag(LazilyHashedPath=lambda p: hashitem))):
            data = ebuild_src.package_factory._get_metadata(fac, pkg)
        used = [i for i, c in enumerate(caches) if data is c.entry and data is not None]
        return {"used": used[0] if used else -1, "regen": fac.regen, "deleted": [c.deleted for c in caches], "kept": [c.entry is not None for c in caches]}

    def _valid(self, inp, rec):
        ob = self.ob
        c = [core.unwrap_bool(inp["has_chf"]), core.lift(rec) == core.lift(inp["cur"])]
        ecl_ok = [core.unwrap_bool(inp["has_inherit"])]
        for e in inp["ecl"]:
            ecl_ok.append(core.unwrap_bool(e["exists"]))
            for f in ob["facts"]:
                ecl_ok.append(core.eq_term(e["rec_" + f], e["cur_" + f]))
        c.append(z3.Or(z3.Not(core.unwrap_bool(inp["has_ecl"])), z3.And(ecl_ok)))
        return z3.And(c)

    def prop(self, inp, obs):
        ob = self.ob
        v1 = self._valid(inp, inp["rec"])
        conds = []
        used, regen = obs["used"], obs["regen"]
        if ob["ncache"] == 1:
            conds.append(z3.BoolVal(used == 0) == v1)
            conds.append(z3.BoolVal(regen == (0 if used == 0 else 1)))
            # stale entry replaced: deleted from a writable cache, never deleted when valid
            stale_deleted = obs["deleted"][0] == 1 and not obs["kept"][0]
            conds.append(z3.Implies(z3.Not(v1), z3.BoolVal(ob["readonly"] or stale_deleted)))
            conds.append(z3.Implies(v1, z3.BoolVal(obs["deleted"][0] == 0 and obs["kept"][0])))
        else:
            v2 = self._valid(inp, inp["rec2"])
            conds.append(z3.BoolVal(used == 0) == v1)
            conds.append(z3.BoolVal(used == 1) == z3.And(z3.Not(v1), v2))
            conds.append(z3.BoolVal(regen == (1 if used == -1 else 0)))
            conds.append(z3.Implies(z3.And(z3.Not(v1), z3.Not(v2)), z3.BoolVal(obs["deleted"][1] == 1)))
            conds.append(z3.Implies(v2, z3.BoolVal(obs["deleted"][1] == 0)))
        return z3.And(conds)


def harness(ob):
    return CacheHarness(ob)


UNIVERSE = {}


def obligations(tier, seed):
    obs = []
    top = 2 if tier == "quick" else 3
    for chf in ("md5", "mtime"):
        for facts in (["md5"], ["eclassdir", "mtime"], ["mtime"]):
            for necl in range(0, top + 1):
                for ncache, ro in ((1, False), (1, True), (2, False), (2, True)):
                    obs.append({"oid": f"chf={chf}|facts={'+'.join(facts)}|eclasses={necl}|caches={ncache}|ro={ro}", "chf": chf, "facts": facts, "necl": necl, "ncache": ncache, "readonly": ro, "max_paths": 100000})
    UNIVERSE[tier] = {"configs": len(obs)}
    return obs
