"""C47 - tarball sync replaces a repository atomically and recovers from interruption."""
import io
import os
import shutil
import subprocess
import tarfile
import tempfile
import urllib.error

from pkgcore.sync import base as sync_base
from pkgcore.sync import http as sync_http
from pkgcore.sync import tar as sync_tar
from sx import core
from sx.runner import Harness
from sx.shims import patched

ID = "C47"
MANIFEST = {
    "technique": "bounded model checking with solver-decided choice (SX engine): what the server answers (a good tarball, a truncated one, one that is not an archive, an HTTP error, 304 Not Modified; with and without ETag / Last-Modified headers), whether a previous tree exists, and the index of the file operation at which the sync stops (directory creation, the unpacking subprocess, every rename, the header files) are symbolic selectors; urllib.request.urlopen as seen by pkgcore.sync.http is a stub serving the chosen answer, os and subprocess as seen by pkgcore.sync.tar / http are wrapped to count operations and stop at the chosen one (the real tar(1) does the unpacking); the engine forks over every feasible combination, runs the real tar_syncer.sync on a scratch directory, inspects the repository path at the stop or after the failure, and then runs a second, undisturbed sync",
    "level_text": "Bounded model checking, exhaustive within the bound (5 server answers x header forms x previous tree present/absent x every file-operation index): a sync that ends (success, failure or stop at any operation) leaves at the repository path the complete previous tree or the complete new tree; a failed download or unpack leaves the previous tree untouched; and a second sync with a good tarball (forced, or relying on the ETag / Last-Modified validators) then completes and installs the complete new tree, while a second sync whose download fails leaves a complete tree. Selector-only; real code, real tar(1), real files; the network is a stub.",
    "level_note": "selector-only harness (labelled as such). Stops model the death of the process: the atexit clean-ups the syncer registers do not run.",
}
META = {
    "modules": ["pkgcore.sync.tar", "pkgcore.sync.http", "pkgcore.sync.base"],
    "functions": ["tar.tar_syncer._pre_download/_post_download", "http.http_syncer._sync/_post_download", "base.Syncer.sync"],
    "stubs": ["atexit inside pkgcore.sync.tar (the registered clean-ups are collected and run when the first sync ends normally, not when it is stopped)", "urllib.request.urlopen inside pkgcore.sync.http (serves the chosen bytes / raises the chosen HTTP error)", "os / subprocess inside pkgcore.sync.tar and os inside pkgcore.sync.http wrapped (operations counted, stop injected)", "sys.stdout inside pkgcore.sync.http (progress bar discarded)"],
    "bounds": {"quick": "menus above, operation index 0..11", "thorough": "same (the space is swept completely in both tiers)"},
    "outside": ["TLS", "a real HTTP server (the answer object is a stub)", "gz / xz archives (bz2 only)"],
    "assumptions": [],
    "selector_only": True,
}

ANSWERS = ["good", "truncated", "garbage", "http-500", "not-modified"]
SECOND = ["good, forced", "good, not forced", "http-500"]
MAXOP = 11


class Crash(BaseException):
    pass


class Counter:
    def __init__(self, stop_at):
        self.n, self.stop_at, self.hit, self.trace = 0, stop_at, None, []

    def step(self, what):
        i = self.n
        self.n += 1
        self.trace.append(what)
        if i == self.stop_at:
            self.hit = what
            raise Crash()


class FaultyOs:
    MUT = ("rename", "makedirs", "mkdir", "unlink", "rmdir", "remove")

    def __init__(self, c):
        self._c = c

    def __getattr__(self, name):
        real = getattr(os, name)
        if name in self.MUT:
            c = self._c

            def wrapped(*a, **k):
                c.step(f"{name}({os.path.basename(str(a[0]).rstrip('/'))})")
                return real(*a, **k)

            return wrapped
        return real


class FaultySubprocess:
    def __init__(self, c):
        self._c = c

    def run(self, cmd, *a, **k):
        self._c.step(f"run({cmd[0]})")
        return subprocess.run(cmd, *a, **k)

    def __getattr__(self, name):
        return getattr(subprocess, name)


class Response:
    def __init__(self, data, headers):
        self._f, self._h = io.BytesIO(data), headers

    def getheader(self, name):
        return self._h.get(name)

    def read(self, n=-1):
        return self._f.read(n)


def make_tarball(td, tag):
    src = os.path.join(td, f"src-{tag}", "repo-snapshot")
    os.makedirs(os.path.join(src, "profiles"))
    os.makedirs(os.path.join(src, "cat/pkg"))
    files = {"profiles/repo_name": f"repo-{tag}\n", "cat/pkg/pkg-1.ebuild": f"# {tag}\n", f"only-in-{tag}": "x\n"}
    for rel, data in files.items():
        with open(os.path.join(src, rel), "w") as f:
            f.write(data)
    out = os.path.join(td, f"{tag}.tar.bz2")
    with tarfile.open(out, "w:bz2") as t:
        t.add(src, arcname="repo-snapshot")
    return open(out, "rb").read(), {rel: data for rel, data in files.items()}


def tree_of(path):
    if not os.path.isdir(path):
        return None
    out = {}
    for dp, dn, fn in os.walk(path):
        for n in fn:
            if n in (".etag", ".modified"):
                continue
            p = os.path.join(dp, n)
            out[os.path.relpath(p, path)] = open(p).read()
    return out


class SyncHarness(Harness):
    active = frozenset()

    def region(self, name, inp):
        self.active = set(self.active) | {name}
        return False

    def setup(self, eng):
        return {"answer": self.ob["answer"], "headers": eng.int("headers", 0, 2), "previous": eng.bool("previous_tree_exists"), "stop_at": eng.int("stop_at", 0, MAXOP), "second": eng.int("second_sync", 0, len(SECOND) - 1)}

    def body(self, inp):
        c = core.fix(inp) if core.ENG is not None else inp
        answer = ANSWERS[c["answer"]]
        td = os.path.realpath(tempfile.mkdtemp(prefix="c47-"))
        try:
            good, new_tree = make_tarball(td, "new")
            _, old_tree = make_tarball(td, "old")
            repos = os.path.join(td, "repos")
            basedir = os.path.join(repos, "gentoo")
            os.makedirs(repos)
            if c["previous"]:
                for rel, data in old_tree.items():
                    os.makedirs(os.path.dirname(os.path.join(basedir, rel)), exist_ok=True)
                    with open(os.path.join(basedir, rel), "w") as f:
                        f.write(data)
                with open(os.path.join(basedir, ".etag"), "w") as f:
                    f.write('"old-etag"')
            headers = [{}, {"ETag": '"new-etag"'}, {"ETag": '"new-etag"', "Last-Modified": "Tue, 01 Jan 2030 00:00:00 GMT", "content-length": str(len(good))}][c["headers"]]

            def urlopen(answer_now):
                def _open(req, context=None):
                    if answer_now == "http-500":
                        raise urllib.error.HTTPError(req.full_url, 500, "Internal Server Error", {}, None)
                    if answer_now == "not-modified":
                        raise urllib.error.HTTPError(req.full_url, 304, "Not Modified", {}, None)
                    data = {"good": good, "truncated": good[: len(good) // 2], "garbage": b"this is not an archive\n" * 10}[answer_now]
                    return Response(data, headers)

                return _open

            def run_sync(answer_now, counter, force=True):
                syncer = sync_tar.tar_syncer(basedir, "tar+http://example.invalid/repo-snapshot.tar.bz2")
                req = type("R", (), {"urlopen": staticmethod(urlopen(answer_now)), "Request": sync_http.urllib.request.Request})
                fake_urllib = type("U", (), {"request": req, "error": urllib.error})
                binds = [(sync_http, "urllib", fake_urllib), (sync_http, "sys", type("S", (), {"stdout": io.StringIO()})), (sync_tar, "atexit", type("A", (), {"register": staticmethod(exit_funcs.append)}))]
                if counter is not None:
                    binds += [(sync_tar, "os", FaultyOs(counter)), (sync_tar, "subprocess", FaultySubprocess(counter)), (sync_http, "os", FaultyOs(counter))]
                with patched(*binds):
                    try:
                        return "ok" if syncer.sync(force=force) else "refused"
                    except Crash:
                        return "stopped"
                    except sync_base.SyncError as e:
                        return "SyncError"

            exit_funcs = []
            counter = Counter(c["stop_at"])
            first = run_sync(answer, counter)
            after_first = tree_of(basedir)
            if first != "stopped":
                # the process ends normally: the clean-ups it registered run (they do not when it is killed)
                for f in reversed(exit_funcs):
                    f()
            exit_funcs.clear()
            sec = SECOND[c.get("second", 0)]
            second = run_sync("http-500" if sec == "http-500" else "good", None, force=sec == "good, forced")
            after_second = tree_of(basedir)
        finally:
            shutil.rmtree(td, ignore_errors=True)
        old = old_tree if c["previous"] else None
        problems = []
        kind = "complete new tree" if after_first == new_tree else ("complete previous tree" if after_first == old or (old is None and after_first in (None, {})) else "something else")
        if "swap-window" in self.active and first == "stopped" and counter.hit == "rename(.gentoo.update)" and c["previous"] and after_first is None:
            kind = "known"
        if kind == "something else":
            problems.append(f"after the first sync ({first}, stopped in {counter.hit}) the repository path holds neither tree: {sorted(after_first) if after_first is not None else None}")
        if first in ("SyncError", "refused") and c["previous"] and after_first != old and answer != "good":
            problems.append(f"a failed sync ({answer}) changed the previous tree")
        if first == "ok" and answer == "good" and after_first != new_tree:
            problems.append("a successful sync did not install the new tree")
        if sec == "http-500":
            # the follow-up download fails: whatever the first sync left (or the recovery restores) must be a complete tree
            ok_trees = [new_tree, old] + ([None, {}] if old is None else [])
            if second != "SyncError" or after_second not in ok_trees:
                problems.append(f"after a failing follow-up sync ({second}) the repository path holds neither tree: {sorted(after_second) if after_second is not None else None}")
        elif second != "ok" or after_second != new_tree:
            problems.append(f"the follow-up sync ({sec}) did not complete ({second}; tree {'ok' if after_second == new_tree else 'wrong'})")
        return {"answer": answer, "headers": sorted(headers), "previous": c["previous"], "stop_at": c["stop_at"], "stopped_in": counter.hit, "operations": counter.trace, "first": first, "second_kind": sec, "second": second, "problems": problems}

    def prop(self, inp, obs):
        return not obs["problems"]


def harness(ob):
    return SyncHarness(ob)


UNIVERSE = {}


def obligations(tier, seed):
    obs = [{"oid": f"server answers: {a}", "answer": i, "max_paths": 10000, "max_s": 2400} for i, a in enumerate(ANSWERS)]
    UNIVERSE[tier] = {"obligations": len(obs)}
    return obs
