"""C42 - package move updates follow move chains in file order."""
import itertools
import os
import shutil
import tempfile

from pkgcore.ebuild import pkg_updates
from pkgcore.ebuild.eapi import get_eapi
from sx import core
from sx.runner import Harness

ID = "C42"
MANIFEST = {
    "technique": "bounded model checking with solver-decided choice (SX engine): every line of the profiles/updates files is a symbolic selector over a menu of moves, slotmoves, redundant, cyclic and malformed lines over three package names, and the split of the lines into quarter-named files is a selector too; the engine forks over every feasible sequence, runs the real read_updates/_process_updates on real files and compares the per-name command lists with a sequential reference",
    "level_text": "Bounded model checking, exhaustive within the bound: all sequences of <= 3 lines (quick) / 4 (thorough) from an 18-line menu over names {c/a, c/b, c/c}, split at every position into two update files: for every name the reported commands are exactly, in order, the moves and slotmoves applying to it along its chain (commands recorded for a target after the move included, redundant lines on already-moved names ignored, malformed lines skipped). Selector-only.",
    "level_note": "selector-only harness (labelled as such). Trusted: the sequential reference.",
}
META = {
    "modules": ["pkgcore.ebuild.pkg_updates"],
    "functions": ["pkg_updates.read_updates", "pkg_updates._process_updates", "pkg_updates._scan_directory"],
    "bounds": {"quick": "<=3 lines from an 18-entry menu, 3 names, 2 files", "thorough": "<=4 lines"},
    "outside": ["more than 3 package names", "more than 2 update files", "lines longer than the menu forms"],
    "assumptions": [],
    "selector_only": True,
}

N = ["c/a", "c/b", "c/c"]
MENU = [f"move {x} {y}" for x in N for y in N if x != y] + [f"slotmove {x} 0 1" for x in N] + ["slotmove c/a 1 2", "move c/a", "frob c/a c/b", "move c/a-1 c/b", "move c/a c/b-2", "slotmove c/a:0 0 1", "", " move c/b c/c", "slotmove c/b 0"]


def reference(lines):
    moved = set()
    events = []
    for raw in lines:
        t = raw.split()
        if not t:
            continue
        if t[0] == "move":
            if len(t) != 3 or "-1" in t[1] or "-2" in t[2]:
                continue
            if t[1] in moved:
                continue
            events.append((t[1], ("move", t[1], t[2])))
            moved.add(t[1])
        elif t[0] == "slotmove":
            if len(t) != 4:
                continue
            key = t[1].split(":")[0]
            if key in moved:
                continue
            if ":" in t[1]:
                continue
            events.append((key, ("slotmove", f"{t[1]}:{t[2]}", t[3])))
    out = {}
    for name in N:
        cur, cmds = name, []
        for subj, cmd in events:
            if subj == cur:
                cmds.append(cmd)
                if cmd[0] == "move":
                    cur = cmd[2]
        if cmds:
            out[name] = cmds
    return out


class UpdatesHarness(Harness):
    def setup(self, eng):
        n = self.ob["n"] - len(self.ob["prefix"])
        return {"sel": [eng.int(f"l{i}", 0, len(MENU) - 1) for i in range(n)], "split": eng.int("split", 0, self.ob["n"])}

    def body(self, inp):
        sym = core.ENG is not None
        sel = list(self.ob["prefix"]) + list(core.fix(inp["sel"]) if sym else inp["sel"])
        split = core.fix(inp["split"]) if sym else inp["split"]
        lines = [MENU[i] for i in sel]
        td = tempfile.mkdtemp(prefix="c42-")
        try:
            # quarter-named files; created in reverse order so that directory order differs from name order
            for name, chunk in (("2Q-2021", lines[split:]), ("1Q-2021", lines[:split])):
                if chunk or name == "1Q-2021":
                    with open(os.path.join(td, name), "w") as f:
                        f.write("".join(l + "\n" for l in chunk))
            try:
                got = pkg_updates.read_updates(td, get_eapi("8"))
                got = {k: [(c[0], str(c[1]), str(c[2])) for c in v] for k, v in got.items()}
            except Exception as e:
                got = "exception " + type(e).__name__
            return {"lines": lines, "split": split, "got": got}
        finally:
            shutil.rmtree(td, ignore_errors=True)

    def prop(self, inp, obs):
        want = {k: [tuple(c) for c in v] for k, v in reference(obs["lines"]).items()}
        got = obs["got"]
        if not isinstance(got, dict):
            return False
        return {k: [tuple(c) for c in v] for k, v in got.items()} == want

    def expected(self, inp, obs):
        return None


def harness(ob):
    return UpdatesHarness(ob)


UNIVERSE = {}


def obligations(tier, seed):
    obs = []
    top = 3 if tier == "quick" else 4
    for n in range(1, top + 1):
        if n <= 2:
            obs.append({"oid": f"n={n}", "n": n, "prefix": [], "max_paths": 3000000, "max_s": 2400})
        else:
            pl = 1 if n <= 4 else 2
            for p in itertools.product(range(len(MENU)), repeat=pl):
                obs.append({"oid": f"n={n}|first={','.join(MENU[i] or '<empty>' for i in p)}", "n": n, "prefix": list(p), "max_paths": 3000000, "max_s": 2400})
    UNIVERSE[tier] = {"sequences": sum(len(MENU) ** n * (n + 1) for n in range(1, top + 1))}
    return obs
