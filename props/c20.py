"""C20 - unmerge removes exactly what it owns and never base directories."""
import os
import shutil
import stat
import tempfile

from pkgcore.fs import contents, fs, livefs
from pkgcore.merge import triggers
from pkgcore.merge.engine import MergeEngine
from pkgcore.operations import observer as observer_mod
from props.mergefs import snapshot
from sx import core
from sx.runner import Harness

ID = "C20"
MANIFEST = {
    "technique": "bounded model checking with solver-decided choice (SX engine): the engine mode (uninstall / replace) with an offset, whether the package directory holds an unlisted file, whether its parent has other content, the kind of the owned symlink (to a directory with content, to a file, dangling, absent), whether a listed file is missing from the live root, whether the old package lists the base directories, the spelling of the shared paths of old and new package (direct or through a live directory symlink, independently) and whether the new package re-installs a shared file are symbolic selectors; the engine forks over every feasible combination, builds the live root on a real scratch directory, runs the real MergeEngine.uninstall / MergeEngine.replace hooks with the merge, unmerge and BaseSystemUnmergeProtection triggers and compares lstat/data/readlink snapshots with the specification",
    "level_text": "Bounded model checking, exhaustive within the bound (2 modes x 2 x 2 x 4 x 2 x 2 x 3 x 3 x 2 live-root/contents shapes): every listed non-directory entry is gone, symlink targets (directory with content, file) are untouched, listed directories are removed only when empty and never when they are base-system directories (/usr, /etc below the offset), nothing unlisted is removed or changed, and after a replace everything the new package installs is present with its new content. Selector-only; real code on real files.",
    "level_note": "selector-only harness (labelled as such). The engines run with disable_plugins=True and the three stock triggers registered explicitly; the offset is a scratch directory.",
}
META = {
    "modules": ["pkgcore.merge.engine", "pkgcore.merge.triggers", "pkgcore.fs.ops", "pkgcore.fs.livefs"],
    "functions": ["engine.MergeEngine.uninstall/replace/execute_hook/regenerate_csets", "engine.get_remove_cset/get_replace_cset/get_uninstall_livefs_intersect/generate_offset_cset", "triggers.unmerge", "triggers.merge", "triggers.BaseSystemUnmergeProtection", "ops.unmerge_contents", "livefs.intersect"],
    "bounds": {"quick": "menus above", "thorough": "same (the space is swept completely in both tiers)"},
    "outside": ["offset '/' (cannot be exercised on a scratch directory)", "config protection (C21)", "device nodes", "entries whose type on the live root differs from the recorded one"],
    "assumptions": [],
    "selector_only": True,
}

SL = ["absent", "to-dir-with-content", "to-file", "dangling"]
STYLE = ["direct", "through-live-dir-symlink"]
OLD_STYLE = STYLE
NEW_STYLE = STYLE + ["not-reinstalled"]
KW = dict(mode=0o755, uid=0, gid=0, mtime=0, strict=False)


class FakePkg:
    def __init__(self, cset, name):
        self.contents, self.name = cset, name

    def __str__(self):
        return self.name


def mkfile(path, data):
    os.makedirs(os.path.dirname(path), exist_ok=True)
    with open(path, "w") as f:
        f.write(data)


def pdir(style):
    return "/usr/lnk/p" if style == "through-live-dir-symlink" else "/usr/share/p"


def build(root, c):
    """the live root before the operation"""
    mkfile(os.path.join(root, "usr/share/p/b"), "old b\n")
    os.symlink("b", os.path.join(root, "usr/share/p/current"))
    if not c["a_missing"]:
        mkfile(os.path.join(root, "usr/share/p/a"), "old a\n")
    if c["unlisted"]:
        mkfile(os.path.join(root, "usr/share/p/unlisted"), "not owned\n")
    if c["share_other"]:
        mkfile(os.path.join(root, "usr/share/other"), "someone else's\n")
    os.symlink("share", os.path.join(root, "usr/lnk"))
    mkfile(os.path.join(root, "etc/p.conf"), "conf\n")
    mkfile(os.path.join(root, "keepdir/inside"), "target dir content\n")
    mkfile(os.path.join(root, "keepfile"), "target file\n")
    sl = SL[c["sl"]]
    if sl != "absent":
        os.symlink({"to-dir-with-content": "../../../keepdir", "to-file": "../../../keepfile", "dangling": "nowhere"}[sl], os.path.join(root, "usr/share/p/sl"))


def old_contents(c):
    d = pdir(OLD_STYLE[c["old_style"]])
    ents = [fs.fsDir("/usr/share", **KW), fs.fsDir(d, **KW), fs.fsFile(d + "/a", **KW), fs.fsFile(d + "/b", **KW), fs.fsSymlink(d + "/current", target="b", **KW), fs.fsFile("/etc/p.conf", **KW)]
    if SL[c["sl"]] != "absent":
        ents.append(fs.fsSymlink("/usr/share/p/sl", target="x", **KW))
    if c["lists_base"]:
        ents += [fs.fsDir("/usr", **KW), fs.fsDir("/etc", **KW)]
    return contents.contentsSet(ents)


class UnmergeHarness(Harness):
    active = frozenset()

    def region(self, name, inp):
        self.active = set(self.active) | {name}
        return False

    def setup(self, eng):
        inp = {"mode": self.ob["mode"], "sl": self.ob["sl"]}
        for k in ("unlisted", "share_other", "a_missing", "lists_base"):
            inp[k] = eng.bool(k)
        inp["old_style"] = eng.int("old_style", 0, len(OLD_STYLE) - 1)
        inp["new_style"] = eng.int("new_style", 0, len(NEW_STYLE) - 1) if self.ob["mode"] == "replace" else 0
        return inp

    def body(self, inp):
        c = core.fix(inp) if core.ENG is not None else inp
        mode = c["mode"]
        td = os.path.realpath(tempfile.mkdtemp(prefix="c20-"))
        try:
            root, img, tmp = os.path.join(td, "root"), os.path.join(td, "img"), os.path.join(td, "tmp")
            os.makedirs(tmp)
            build(root, c)
            before = snapshot(root)
            old = old_contents(c)
            obs = observer_mod.repo_observer(observer_mod.null_output())
            exc = None
            new_locs = {}
            try:
                if mode == "uninstall":
                    engine = MergeEngine.uninstall(tmp, FakePkg(old, "fake/old-1"), offset=root, disable_plugins=True, observer=obs)
                    phases = ("sanity_check", "pre_unmerge", "unmerge", "post_unmerge", "final")
                else:
                    ns = NEW_STYLE[c["new_style"]]
                    nd = pdir(ns) if ns != "not-reinstalled" else "/usr/share/p"
                    if ns != "not-reinstalled":
                        mkfile(os.path.join(img, nd.lstrip("/"), "b"), "NEW b\n")
                        new_locs["/usr/share/p/b"] = "NEW b\n"
                        os.symlink("b", os.path.join(img, nd.lstrip("/"), "current"))
                        new_locs["/usr/share/p/current"] = None
                    mkfile(os.path.join(img, nd.lstrip("/"), "c"), "NEW c\n")
                    new_locs["/usr/share/p/c"] = "NEW c\n"
                    new = contents.contentsSet(livefs.scan(img, offset=img))
                    engine = MergeEngine.replace(tmp, FakePkg(old, "fake/old-1"), FakePkg(new, "fake/new-2"), offset=root, disable_plugins=True, observer=obs)
                    phases = ("sanity_check", "pre_merge", "merge", "post_merge", "pre_unmerge", "unmerge", "post_unmerge", "final")
                for t in (triggers.merge, triggers.unmerge, triggers.BaseSystemUnmergeProtection):
                    t().register(engine)
                for ph in phases:
                    getattr(engine, ph)()
            except Exception as e:
                exc = f"{type(e).__name__}: {e}".replace(td, "<scratch>")
            after = snapshot(root)
        finally:
            shutil.rmtree(td, ignore_errors=True)
        problems = []
        if exc:
            problems.append(f"engine raised {exc}")
        # ---- the specification (physical paths below the root)
        owned_files = {"/usr/share/p/a", "/usr/share/p/b", "/usr/share/p/current", "/etc/p.conf"} | ({"/usr/share/p/sl"} if SL[c["sl"]] != "absent" else set())
        for p in sorted(owned_files):
            if p in new_locs:
                continue
            if p in after:
                problems.append(f"{p}: listed by the removed package, still there")
        for p, data in new_locs.items():
            a = after.get(p)
            if a is None:
                problems.append(f"{p}: installed by the new package, missing after the replace")
            elif data is None:
                if a.get("target") != "b":
                    problems.append(f"{p}: installed by the new package as a symlink to b, is something else after the replace")
            elif a.get("data") != data:
                problems.append(f"{p}: installed by the new package, has other content after the replace")
        # listed directories go only when empty (the statement does not demand that every empty one goes)
        p_empty = not c["unlisted"] and not new_locs
        if "/usr/share/p" not in after and not p_empty:
            problems.append("/usr/share/p: non-empty directory removed")
        if "/usr/share" not in after and not (p_empty and not c["share_other"]):
            problems.append("/usr/share: non-empty directory removed")
        for base in ("/usr", "/etc"):
            if base not in after:
                problems.append(f"{base}: base-system directory removed")
        for p, b in before.items():
            if p in owned_files or p in ("/usr/share/p", "/usr/share") or p in new_locs:
                continue
            a = after.get(p)
            if a is None:
                problems.append(f"{p}: removed although not listed")
                continue
            ka = {k: v for k, v in a.items() if k != "ino" and not (k == "mtime" and stat.S_ISDIR(a["type"]))}
            kb = {k: v for k, v in b.items() if k != "ino" and not (k == "mtime" and stat.S_ISDIR(b["type"]))}
            if ka != kb:
                problems.append(f"{p}: changed although not listed")
        for p in after:
            if p not in before and p not in new_locs:
                problems.append(f"{p}: created although nobody installs it")
        return {"mode": mode, "shape": {k: c[k] for k in ("unlisted", "share_other", "a_missing", "lists_base")}, "sl": SL[c["sl"]], "old_style": OLD_STYLE[c["old_style"]], "new_style": NEW_STYLE[c["new_style"]] if mode == "replace" else None, "exc": exc, "left": sorted(after), "problems": problems}

    def prop(self, inp, obs):
        return not obs["problems"]


def harness(ob):
    return UnmergeHarness(ob)


UNIVERSE = {}


def obligations(tier, seed):
    obs = [{"oid": f"{mode}|owned symlink={SL[s]}", "mode": mode, "sl": s, "max_paths": 100000, "max_s": 2400} for mode in ("uninstall", "replace") for s in range(len(SL))]
    UNIVERSE[tier] = {"obligations": len(obs)}
    return obs
