"""C34 - saved-environment filtering removes exactly the named definitions."""
import io
import signal
import subprocess

from pkgcore.ebuild import filter_env
from sx import core
from sx.runner import Harness

ID = "C34"
MANIFEST = {
    "technique": "bounded model checking with solver-decided choice (SX engine): the definitions of an environment (variables in every bash quoting style, arrays, functions whose bodies contain braces in quotes, parameter expansions with quoted closing braces, here-documents, case arms, comments, arithmetic, nested functions), their order, the filter patterns and the blacklist/whitelist modes are symbolic selectors; the engine forks over every feasible combination; /bin/bash itself writes the dump (declare -p / declare -f after sourcing the definitions), the real filter_env.main_run filters it, and /bin/bash sources the result: the definitions it then reports are compared with the original ones minus the filtered names",
    "level_text": "Bounded model checking, exhaustive within the bound (environments of 2 variables from 12 and 2 functions from 12 in both orders, 12 combinations of variable / function filters (single names, several names incl. one that is a prefix of another definition, regular expressions) in blacklist and whitelist mode): sourcing the filtered dump in bash defines exactly the non-filtered variables and functions (exactly the filtered ones in whitelist mode) with the same values and the same function bodies as bash itself reports for the unfiltered dump, and the filtered text sources without a syntax error. Selector-only; bash is the oracle.",
    "level_note": "selector-only harness (labelled as such). Each path runs /bin/bash three times (dump, reference report, report after filtering).",
}
META = {
    "modules": ["pkgcore.ebuild.filter_env"],
    "functions": ["filter_env.main_run", "filter_env.run", "filter_env.process_scope", "filter_env.is_function/is_envvar", "filter_env.walk_command_complex/walk_dollar_expansion/walk_here_statement/walk_statement_pound", "filter_env.build_regex_string"],
    "stubs": [],
    "bounds": {"quick": "9 first-definition pairs, second definitions from every third menu entry", "thorough": "all 144 first-definition pairs, second definitions from every second menu entry"},
    "outside": ["environments bash did not write itself (hand-written snippets are covered by the pinned tests)", "callbacks (global_envvar_callback / func_callback)", "more than 4 definitions per dump"],
    "assumptions": ["/bin/bash is the reference for what a dump defines"],
    "selector_only": True,
}

VARS = [
    ("PLAIN", "PLAIN=word"), ("DQ", 'DQ="two words \\" } and $ \\$x"'), ("SQ", "SQ='single } { \" # quote'"), ("ANSI", "ANSI=$'tab\\there } \\' quote'"), ("ARR", 'ARR=(one "two } three" $\'fo\\nur\')'),
    ("EMPTY", "EMPTY="), ("EXP", 'export EXP="exported # not a comment"'), ("MULTI", 'MULTI="line one\nline } two\n# three"'), ("FUNCLIKE", 'FUNCLIKE="f() { echo; }"'),
    ("PLAIN_EXT", "PLAIN_EXT=longer-name"), ("APOS", 'APOS="it\'s a } brace"'), ("ANSIBS", "ANSIBS=$'first\\nC:\\\\dir\\\\'"),
]
FUNCS = [
    ("f_plain", "f_plain() { echo hi; }"), ("f_brace", "f_brace() { echo \"}\"; echo '{'; }"), ("f_param", 'f_param() { local x=${1:-"}"}; echo "${x#"}"}"; }'),
    ("f_here", "f_here() {\ncat <<EOF\n}\nnot the end {\nEOF\n}"), ("f_case", 'f_case() { case $1 in a) echo "}";; b|c) : ;; *) echo \')\';; esac; }'),
    ("f_comment", "f_comment() {\n# a } in a comment\necho done # trailing }\n}"), ("f_arith", "f_arith() { local i; for ((i=0; i<3; i++)); do (( i > 1 )) && echo $(( i << 1 )); done; }"),
    ("f_nested", "f_nested() { inner() { echo '}'; }; inner; }"), ("f_subsh", 'f_subsh() { ( echo "$(echo "}")" ); echo `echo {`; }'), ("f_plain_x", "f_plain_x() { echo longer; }"),
    ("f_apos", 'f_apos() { echo "it\'s } here"; echo \'say "}"\'; }'), ("f_hereq", "f_hereq() {\ncat <<'EOF'\n} $x `y`\nEOF\n}"),
]
VFILTERS = [None, ["PLAIN"], ["DQ", "ARR"], ["M.*"], ["A.*"], ["NOPE"], ["PLAIN", "ANSIBS", "DQ"]]  # patterns are anchored regular expressions
FFILTERS = [None, ["f_plain"], ["f_brace", "f_here"], ["f_.a.*"], ["f_nested"], ["nope"], ["f_plain", "f_case"]]
# (variable filter, function filter, vars_is_whitelist, funcs_is_whitelist)
FILTS = [(0, 0, False, False), (1, 1, False, False), (2, 2, False, False), (3, 3, False, False), (4, 4, True, False), (2, 3, True, True), (5, 5, False, True), (3, 2, False, True), (0, 4, False, False), (4, 0, False, False), (6, 6, False, False), (6, 6, True, True)]
REPORT = 'for v in %s; do declare -p "$v" 2>/dev/null || echo "unset $v"; done; for f in %s; do declare -f "$f" 2>/dev/null || echo "nofunc $f"; done'
ALLV = " ".join(n for n, _ in VARS)
ALLF = " ".join(n for n, _ in FUNCS) + " inner"


class FilterDoesNotTerminate(Exception):
    pass


def _timeout(sig, frame):
    raise FilterDoesNotTerminate("no result after 60 s")


def bash(script, stdin=None):
    r = subprocess.run(["/bin/bash", "--norc", "--noprofile", "-c", script], input=stdin, capture_output=True, text=True, env={"PATH": "/usr/bin:/bin", "LC_ALL": "C"}, timeout=30)
    return r.returncode, r.stdout, r.stderr


def report_of(text):
    """what bash says is defined after sourcing `text` (on stdin)"""
    rc, out, err = bash("source /dev/stdin || exit 97; " + REPORT % (ALLV, ALLF), stdin=text)
    return rc, out, err


def split_report(out):
    """name -> definition text"""
    d, cur, name = {}, [], None
    for line in out.split("\n"):
        starts = None
        if line.startswith("declare ") and "=" in line or (line.startswith("declare ") and len(line.split()) == 3):
            starts = line.split("=", 1)[0].split()[-1]
        elif line.startswith("unset ") or line.startswith("nofunc "):
            starts = line.split()[1]
        elif line.endswith(" () ") or line.endswith(" ()"):
            starts = line.split()[0]
        if starts is not None and (name is None or not in_function(cur)):
            if name is not None:
                d[name] = "\n".join(cur)
            name, cur = starts, [line]
        else:
            cur.append(line)
    if name is not None:
        d[name] = "\n".join(cur)
    return d


def in_function(cur):
    """inside the printed body of a function: bash closes it with a line that is exactly '}'"""
    return bool(cur) and (cur[0].endswith(" () ") or cur[0].endswith(" ()")) and cur[-1] != "}"


class FilterHarness(Harness):
    def setup(self, eng):
        return {"v1": self.ob["v1"], "f1": self.ob["f1"], "v2": eng.int("var2", 0, 5 if self.ob["full"] else 2), "f2": eng.int("func2", 0, 4 if self.ob["full"] else 2), "order": eng.int("order", 0, 1), "filt": eng.int("filters", 0, len(FILTS) - 1)}

    def body(self, inp):
        c = dict(core.fix(inp) if core.ENG is not None else inp)
        c["vf"], c["ff"], c["vwhite"], c["fwhite"] = FILTS[c["filt"]]
        # the second definitions come from every third (quick) / every second (thorough) entry, rotated with the first
        step = 2 if self.ob["full"] else 3
        c["v2"] = (c["v1"] + 1 + step * c["v2"]) % len(VARS)
        c["f2"] = (c["f1"] + 2 + step * c["f2"]) % len(FUNCS)
        defs = [VARS[c["v1"]], FUNCS[c["f1"]], VARS[c["v2"]], FUNCS[c["f2"]]]
        if c["order"]:
            defs = [defs[1], defs[3], defs[0], defs[2]]
        source = "\n".join(t for _, t in defs) + "\n"
        names_v = [n for n, _ in VARS if any(n == d[0] for d in defs)]
        names_f = [n for n, _ in FUNCS if any(n == d[0] for d in defs)]
        # bash writes the dump
        # variables as plain assignments in bash's own quoting (declare -p minus the "declare -flags " prefix; filter_env
        # leaves declare statements alone by design), then the functions as declare -f prints them
        rc, dump, err = bash("source /dev/stdin; for v in %s; do d=$(declare -p $v); echo \"${d#declare -* }\"; done; declare -f" % " ".join(names_v), stdin=source)
        if rc != 0:
            raise AssertionError(f"bash could not write the dump: {err}")
        rc, ref, err = report_of(dump)
        if rc != 0:
            raise AssertionError(f"bash cannot source its own dump: {err}")
        ref = split_report(ref)
        vf, ff = VFILTERS[c["vf"]], FFILTERS[c["ff"]]
        out = io.BytesIO()
        old = signal.signal(signal.SIGALRM, _timeout)
        signal.alarm(60)
        try:
            filter_env.main_run(out, dump, vf, ff, c["vwhite"], c["fwhite"])
        finally:
            signal.alarm(0)
            signal.signal(signal.SIGALRM, old)
        filtered = out.getvalue().decode()
        rc, got, err = report_of(filtered)
        res = {"definitions": [n for n, _ in defs], "var_filter": vf, "func_filter": ff, "vars_is_whitelist": c["vwhite"], "funcs_is_whitelist": c["fwhite"], "problems": []}
        if rc != 0:
            res["problems"].append("the filtered text does not source: " + err.strip().split("\n")[-1][-120:])
            return res
        got = split_report(got)
        import re

        def dropped(name, pats, white):
            if not pats:
                return False
            hit = any(re.fullmatch(p, name) for p in pats)
            return hit != white

        for n in names_v:
            gone = dropped(n, vf, c["vwhite"])
            have = got.get(n, "")
            if gone and not have.startswith("unset "):
                res["problems"].append(f"variable {n} should have been removed")
            if not gone and have != ref.get(n):
                res["problems"].append(f"variable {n} differs after filtering" if not have.startswith("unset ") else f"variable {n} was removed although it does not match")
        for n in names_f + (["inner"] if "f_nested" in names_f else []):
            gone = dropped(n, ff, c["fwhite"]) if n != "inner" else False
            have = got.get(n, "")
            if n == "inner":
                continue  # defined only when f_nested runs
            if gone and not have.startswith("nofunc "):
                res["problems"].append(f"function {n} should have been removed")
            if not gone and have != ref.get(n):
                res["problems"].append(f"function {n} differs after filtering" if not have.startswith("nofunc ") else f"function {n} was removed although it does not match")
        return res

    def prop(self, inp, obs):
        return not obs["problems"]


def harness(ob):
    return FilterHarness(ob)


UNIVERSE = {}


def obligations(tier, seed):
    obs = [{"oid": f"{VARS[i][0]} + {FUNCS[j][0]}", "v1": i, "f1": j, "full": tier != "quick", "max_paths": 100000, "max_s": 2400} for i in range(len(VARS)) for j in range(len(FUNCS)) if tier != "quick" or i == j]
    UNIVERSE[tier] = {"obligations": len(obs)}
    return obs
