"""C14 - USE-configured package views always reflect the current USE set."""
import itertools

import z3

from pkgcore.ebuild.atom import atom
from pkgcore.ebuild.conditionals import DepSet
from pkgcore.package import conditionals
from snakeoil import klass
from snakeoil.containers import Unchangable
from sx import core
from sx.runner import Harness

ID = "C14"
MANIFEST = {
    "technique": "bounded model checking with solver-decided nondeterministic choice (SX engine): the operation history on a real PackageWrapper (make_wrapper over a real DepSet attribute and snakeoil's LimitedChangeSet) is a sequence of symbolic selectors over {enable/disable of free, locked-on and locked-off flags (single and multi-flag), rollback(p), commit, read}; the engine forks over every feasible history, runs the real methods and after every step compares each wrapped attribute with the raw attribute evaluated under the wrapper's current USE set and checks that a refused request left the USE set unchanged; plus an inductive step over the cache bookkeeping: from a state reached by <=2 operations the reuse point and the stamps of the cached attributes are replaced by unbounded symbolic integers (cached values fresh or stale by choice) constrained only by the invariant 'stamp <= reuse point, and stamp == reuse point implies the value is the evaluation under the current USE set'; one operation runs on the real wrapper with those integers flowing through its comparisons and increments, and z3 proves the invariant afterwards and that a read returns the fresh evaluation",
    "level_text": "Bounded model checking, exhaustive within the bound: every history of <= 4 (quick) / 5 (thorough) operations from a 15-operation menu, with attribute reads both optional in between and mandatory at the end, on packages starting from two initial USE sets. Selector-only: the solver does the exhaustiveness bookkeeping; the cache reuse-point arithmetic is exercised concretely along each history. Inductive step: for every operation of the menu, from every bookkeeping state satisfying the invariant (all integers), the invariant holds again and reads are fresh; since the initial state satisfies it, stale reads are excluded for histories of any length as far as the bookkeeping is concerned (the USE-set side is covered by the bounded histories).",
    "level_note": "The history harness is selector-only (labelled as such); the step harness is symbolic in the reuse point and stamps. The oracle is evaluation of the raw DepSet under the wrapper's own current USE set (LimitedChangeSet is a dependency and is not modelled). Violations are replayed natively from the concrete history.",
}
META = {
    "modules": ["pkgcore.package.conditionals"],
    "functions": ["conditionals.make_wrapper", "PackageWrapper.__init__/request_enable/request_disable/rollback/commit/changes_count", "conditionals._getattr_wrapped", "DepSet.evaluate_depset (oracle and wrapped attribute)"],
    "bounds": {"quick": "all histories of <=4 operations over the 15-operation menu x 2 initial USE sets, reads after the history on both wrapped attributes", "thorough": "histories of <=5 operations"},
    "outside": ["histories longer than 5", "request_enable/request_disable on wrapped attributes (force_True/force_False machinery)", "more than 3 flags"],
    "assumptions": [],
    "selector_only": False,
}

OPS = [("en", ("a",)), ("en", ("c",)), ("en", ("b",)), ("en", ("a", "c")), ("en", ("d", "a")), ("dis", ("a",)), ("dis", ("b",)), ("dis", ("d",)), ("dis", ("a", "b")), ("dis", ("d", "a")),
       ("rb", 0), ("rb", 1), ("rb", 2), ("commit", None), ("read", None)]


class RawPkg:
    def __init__(self):
        self.depend = DepSet.parse("a? ( x/a ) !a? ( x/na ) b? ( x/b ) c? ( x/c ) d? ( x/d !a? ( x/dna ) ) x/always", atom)
        self.rdepend = DepSet.parse("|| ( a? ( y/a ) d? ( y/d ) y/z ) !c? ( y/nc )", atom)
        self.cpvstr = "cat/pkg-1"

    def __str__(self):
        return self.cpvstr


_W = []


def wrapper_cls():
    if not _W:
        _W.append(conditionals.make_wrapper(None, "use", {"depend": klass.alias_method("evaluate_depset"), "rdepend": klass.alias_method("evaluate_depset")}))
    return _W[0]


class HistHarness(Harness):
    active = frozenset()

    def region(self, name, inp):
        self.active = set(self.active) | {name}
        return False

    def setup(self, eng):
        return {"sel": [eng.int(f"op{i}", 0, len(OPS) - 1) for i in range(self.ob["n"] - len(self.ob["prefix"]))]}

    def body(self, inp):
        ob = self.ob
        sel = list(ob["prefix"]) + list(core.fix(inp["sel"]) if core.ENG is not None else inp["sel"])
        raw = RawPkg()
        # a: free; b: locked on (initially set, unchangeable); c: locked off; d: free, initially on in variant 1
        init = ["b"] + (["d"] if ob["init"] == 1 else [])
        w = wrapper_cls()(raw, initial_settings=init, unchangable_settings=["b", "c"])
        log = []
        bad = None

        def check(step):
            nonlocal bad
            cur = frozenset(w.use)
            for attr in ("depend", "rdepend"):
                got = str(getattr(w, attr))
                want = str(getattr(raw, attr).evaluate_depset(cur))
                if got != want and bad is None:
                    bad = {"step": step, "attr": attr, "use": sorted(cur), "got": got, "want": want}

        for step, i in enumerate(sel):
            kind, arg = OPS[i]
            before = frozenset(w.use)
            r = None
            if kind in ("en", "dis"):
                try:
                    r = w.request_enable("use", *arg) if kind == "en" else w.request_disable("use", *arg)
                except KeyError:
                    # an exception escaping the request: not granted
                    r = False
            elif kind == "rb":
                if arg > w.changes_count():
                    log.append([kind, arg, "skipped"])
                    continue
                try:
                    w.rollback(arg)
                except KeyError:
                    if "lcs-noop-rollback" in self.active:
                        break  # the change log was corrupted by the known no-op-change defect
                    raise
            elif kind == "commit":
                w.commit()
            else:
                check(step)
            after = frozenset(w.use)
            log.append([kind, list(arg) if isinstance(arg, tuple) else arg, r, sorted(after)])
            if kind in ("en", "dis") and r is False and after != before and bad is None:
                # snakeoil's LimitedChangeSet records a change for a flag that already is in the requested
                # state and "undoes" it on rollback; known finding when that is what happened
                noop = [x for x in arg[:-1] if (x in before) == (kind == "en")]
                if noop and "lcs-noop-rollback" in self.active:
                    known = True
                else:
                    bad = {"step": step, "refused_but_changed": [sorted(before), sorted(after)]}
            if kind == "en" and r is True and not set(arg) <= after and bad is None:
                bad = {"step": step, "granted_but_not_set": sorted(after)}
            if kind == "dis" and r is True and set(arg) & after and bad is None:
                bad = {"step": step, "granted_but_still_set": sorted(after)}
        check(len(sel))
        return {"history": [OPS[i][0] + (":" + ",".join(OPS[i][1]) if isinstance(OPS[i][1], tuple) else ("" if OPS[i][1] is None else ":%d" % OPS[i][1])) for i in sel], "bad": bad}

    def prop(self, inp, obs):
        return obs["bad"] is None


# ---------------------------------------------------------------- inductive step over the cache bookkeeping
USE_SETS = [(), ("a",), ("d",), ("a", "d")]  # free flags; b is locked on, c locked off


class StepHarness(Harness):
    """one operation from an arbitrary bookkeeping state: the reuse point and the stamps of the cached attributes are
    unbounded symbolic integers; a cached value is fresh or stale by choice.  Invariant: every stamp is <= the reuse point,
    and an attribute stamped with the current reuse point holds the evaluation under the current USE set."""

    active = frozenset()

    def region(self, name, inp):
        self.active = set(self.active) | {name}
        return False

    def setup(self, eng):
        inp = {"R": eng.int("reuse_pt"), "pre": [eng.int(f"prefix_op{i}", 0, len(OPS) - 2) for i in range(self.ob["prefix"])]}
        for attr in ("depend", "rdepend"):
            inp[attr] = {"state": eng.int(f"cache_{attr}", 0, 2), "stamp": eng.int(f"stamp_{attr}"), "stale_use": eng.int(f"stale_use_{attr}", 0, len(USE_SETS) - 1)}
        return inp

    def body(self, inp):
        ob = self.ob
        sym = core.ENG is not None
        fx = (lambda v: core.fix(v)) if sym else (lambda v: v)
        raw = RawPkg()
        w = wrapper_cls()(raw, initial_settings=["b"] + (["d"] if ob["init"] == 1 else []), unchangable_settings=["b", "c"])
        for i in fx(inp["pre"]):
            kind, arg = OPS[i]
            try:
                if kind == "en":
                    w.request_enable("use", *arg)
                elif kind == "dis":
                    w.request_disable("use", *arg)
                elif kind == "rb" and arg <= w.changes_count():
                    w.rollback(arg)
                elif kind == "commit":
                    w.commit()
            except KeyError:
                return {"skip": "prefix hit the known LimitedChangeSet no-op defect"}
        cur = frozenset(w.use)
        # ---- arbitrary bookkeeping state satisfying the invariant
        R = inp["R"]
        object.__setattr__(w, "_reuse_pt", R)
        cache = {}
        inv = []
        for attr in ("depend", "rdepend"):
            st = fx(inp[attr]["state"])
            if st == 0:
                continue
            S = inp[attr]["stamp"]
            if st == 1:
                val = getattr(raw, attr).evaluate_depset(cur)
            else:
                other = frozenset(USE_SETS[fx(inp[attr]["stale_use"])]) | {"b"}
                val = getattr(raw, attr).evaluate_depset(other)
            fresh = str(val) == str(getattr(raw, attr).evaluate_depset(cur))
            cache[attr] = (S, val)
            inv.append(core.lift(S) <= core.lift(R))
            if not fresh:
                inv.append(core.lift(S) != core.lift(R))
        object.__setattr__(w, "_cached_wrapped", cache)
        if sym:
            for e in inv:
                core.ENG.assume(e)
        else:
            if not all(z3.is_true(z3.simplify(e)) for e in inv):
                return {"skip": "state outside the invariant"}
        # ---- one operation
        kind, arg = OPS[ob["op"]]
        read = None
        try:
            if kind == "en":
                w.request_enable("use", *arg)
            elif kind == "dis":
                w.request_disable("use", *arg)
            elif kind == "rb":
                if arg > w.changes_count():
                    return {"skip": "rollback point beyond the change log"}
                w.rollback(arg)
            elif kind == "commit":
                w.commit()
            else:
                read = {a: str(getattr(w, a)) for a in ("depend", "rdepend")}
        except KeyError:
            return {"skip": "known LimitedChangeSet no-op defect"}
        after = frozenset(w.use)
        want = {a: str(getattr(raw, a).evaluate_depset(after)) for a in ("depend", "rdepend")}
        post = []
        R2 = w._reuse_pt
        for attr, (S2, v2) in w._cached_wrapped.items():
            post.append({"attr": attr, "stamp": S2, "fresh": str(v2) == want[attr]})
        return {"op": [kind, list(arg) if isinstance(arg, tuple) else arg], "use_before": sorted(cur), "use_after": sorted(after), "R2": R2, "post": post, "read_ok": None if read is None else read == want}

    def prop(self, inp, obs):
        if "skip" in obs:
            return True
        conds = []
        if obs["read_ok"] is not None:
            conds.append(z3.BoolVal(bool(obs["read_ok"])))
        R2 = core.lift(obs["R2"])
        for p in obs["post"]:
            S2 = core.lift(p["stamp"])
            conds.append(S2 <= R2)
            if not p["fresh"]:
                conds.append(S2 != R2)
        return z3.And(*conds) if conds else True


def harness(ob):
    return StepHarness(ob) if ob.get("step") else HistHarness(ob)


UNIVERSE = {}


def obligations(tier, seed):
    obs = []
    top = 4 if tier == "quick" else 5
    for init in (0, 1):
        for n in range(1, top + 1):
            if n <= 2:
                obs.append({"oid": f"init={init}|n={n}", "init": init, "n": n, "prefix": [], "max_paths": 500000, "max_s": 1200})
            else:
                pl = 1 if n <= 4 else 2
                for p in itertools.product(range(len(OPS)), repeat=pl):
                    obs.append({"oid": f"init={init}|n={n}|first={','.join(map(str, p))}", "init": init, "n": n, "prefix": list(p), "max_paths": 500000, "max_s": 1200})
    for init in (0, 1):
        for prefix in (0, 1, 2) if tier != "quick" else (0, 1):
            for op in range(len(OPS)):
                obs.append({"oid": f"step|init={init}|prefix={prefix}|op={OPS[op][0]}:{OPS[op][1]}", "step": True, "init": init, "prefix": prefix, "op": op, "max_paths": 500000, "max_s": 1200})
    UNIVERSE[tier] = {"histories": 2 * sum(len(OPS) ** n for n in range(1, top + 1))}
    return obs
