"""C14 - USE-configured package views always reflect the current USE set."""
import itertools

import z3

from pkgcore.ebuild.atom import atom
from pkgcore.ebuild.conditionals import DepSet
from pkgcore.package import conditionals
from snakeoil import klass
from snakeoil.containers import Unchangable
from sx import core
from sx.runner import Harness

ID = "C14"
MANIFEST = {
    "technique": "bounded model checking with solver-decided nondeterministic choice (SX engine): the operation history on a real PackageWrapper (make_wrapper over a real DepSet attribute and snakeoil's LimitedChangeSet) is a sequence of symbolic selectors over {enable/disable of free, locked-on and locked-off flags (single and multi-flag), rollback(p), commit, read}; the engine forks over every feasible history, runs the real methods and after every step compares each wrapped attribute with the raw attribute evaluated under the wrapper's current USE set and checks that a refused request left the USE set unchanged",
    "level_text": "Bounded model checking, exhaustive within the bound: every history of <= 4 (quick) / 5 (thorough) operations from a 15-operation menu, with attribute reads both optional in between and mandatory at the end, on packages starting from two initial USE sets. Selector-only: the solver does the exhaustiveness bookkeeping; the cache reuse-point arithmetic is exercised concretely along each history.",
    "level_note": "selector-only harness (labelled as such). The oracle is evaluation of the raw DepSet under the wrapper's own current USE set (LimitedChangeSet is a dependency and is not modelled). Violations are replayed natively from the concrete history.",
}
META = {
    "modules": ["pkgcore.package.conditionals"],
    "functions": ["conditionals.make_wrapper", "PackageWrapper.__init__/request_enable/request_disable/rollback/commit/changes_count", "conditionals._getattr_wrapped", "DepSet.evaluate_depset (oracle and wrapped attribute)"],
    "bounds": {"quick": "all histories of <=4 operations over the 15-operation menu x 2 initial USE sets, reads after the history on both wrapped attributes", "thorough": "histories of <=5 operations"},
    "outside": ["histories longer than 5", "request_enable/request_disable on wrapped attributes (force_True/force_False machinery)", "more than 3 flags"],
    "assumptions": [],
    "selector_only": True,
}

OPS = [("en", ("a",)), ("en", ("c",)), ("en", ("b",)), ("en", ("a", "c")), ("en", ("d", "a")), ("dis", ("a",)), ("dis", ("b",)), ("dis", ("d",)), ("dis", ("a", "b")), ("dis", ("d", "a")),
       ("rb", 0), ("rb", 1), ("rb", 2), ("commit", None), ("read", None)]


class RawPkg:
    def __init__(self):
        self.depend = DepSet.parse("a? ( x/a ) !a? ( x/na ) b? ( x/b ) c? ( x/c ) d? ( x/d !a? ( x/dna ) ) x/always", atom)
        self.rdepend = DepSet.parse("|| ( a? ( y/a ) d? ( y/d ) y/z ) !c? ( y/nc )", atom)
        self.cpvstr = "cat/pkg-1"

    def __str__(self):
        return self.cpvstr


_W = []


def wrapper_cls():
    if not _W:
        _W.append(conditionals.make_wrapper(None, "use", {"depend": klass.alias_method("evaluate_depset"), "rdepend": klass.alias_method("evaluate_depset")}))
    return _W[0]


class HistHarness(Harness):
    active = frozenset()

    def region(self, name, inp):
        self.active = set(self.active) | {name}
        return False

    def setup(self, eng):
        return {"sel": [eng.int(f"op{i}", 0, len(OPS) - 1) for i in range(self.ob["n"] - len(self.ob["prefix"]))]}

    def body(self, inp):
        ob = self.ob
        sel = list(ob["prefix"]) + list(core.fix(inp["sel"]) if core.ENG is not None else inp["sel"])
        raw = RawPkg()
        # a: free; b: locked on (initially set, unchangeable); c: locked off; d: free, initially on in variant 1
        init = ["b"] + (["d"] if ob["init"] == 1 else [])
        w = wrapper_cls()(raw, initial_settings=init, unchangable_settings=["b", "c"])
        log = []
        bad = None

        def check(step):
            nonlocal bad
            cur = frozenset(w.use)
            for attr in ("depend", "rdepend"):
                got = str(getattr(w, attr))
                want = str(getattr(raw, attr).evaluate_depset(cur))
                if got != want and bad is None:
                    bad = {"step": step, "attr": attr, "use": sorted(cur), "got": got, "want": want}

        for step, i in enumerate(sel):
            kind, arg = OPS[i]
            before = frozenset(w.use)
            r = None
            if kind in ("en", "dis"):
                try:
                    r = w.request_enable("use", *arg) if kind == "en" else w.request_disable("use", *arg)
                except KeyError:
                    # an exception escaping the request: not granted
                    r = False
            elif kind == "rb":
                if arg > w.changes_count():
                    log.append([kind, arg, "skipped"])
                    continue
                try:
                    w.rollback(arg)
                except KeyError:
                    if "lcs-noop-rollback" in self.active:
                        break  # the change log was corrupted by the known no-op-change defect
                    raise
            elif kind == "commit":
                w.commit()
            else:
                check(step)
            after = frozenset(w.use)
            log.append([kind, list(arg) if isinstance(arg, tuple) else arg, r, sorted(after)])
            if kind in ("en", "dis") and r is False and after != before and bad is None:
                # snakeoil's LimitedChangeSet records a change for a flag that already is in the requested
                # state and "undoes" it on rollback; known finding when that is what happened
                noop = [x for x in arg[:-1] if (x in before) == (kind == "en")]
                if noop and "lcs-noop-rollback" in self.active:
                    known = True
                else:
                    bad = {"step": step, "refused_but_changed": [sorted(before), sorted(after)]}
            if kind == "en" and r is True and not set(arg) <= after and bad is None:
                bad = {"step": step, "granted_but_not_set": sorted(after)}
            if kind == "dis" and r is True and set(arg) & after and bad is None:
                bad = {"step": step, "granted_but_still_set": sorted(after)}
        check(len(sel))
        return {"history": [OPS[i][0] + (":" + ",".join(OPS[i][1]) if isinstance(OPS[i][1], tuple) else ("" if OPS[i][1] is None else ":%d" % OPS[i][1])) for i in sel], "bad": bad}

    def prop(self, inp, obs):
        return obs["bad"] is None


def harness(ob):
    return HistHarness(ob)


UNIVERSE = {}


def obligations(tier, seed):
    obs = []
    top = 4 if tier == "quick" else 5
    for init in (0, 1):
        for n in range(1, top + 1):
            if n <= 2:
                obs.append({"oid": f"init={init}|n={n}", "init": init, "n": n, "prefix": [], "max_paths": 500000, "max_s": 1200})
            else:
                pl = 1 if n <= 4 else 2
                for p in itertools.product(range(len(OPS)), repeat=pl):
                    obs.append({"oid": f"init={init}|n={n}|first={','.join(map(str, p))}", "init": init, "n": n, "prefix": list(p), "max_paths": 500000, "max_s": 1200})
    UNIVERSE[tier] = {"histories": 2 * sum(len(OPS) ** n for n in range(1, top + 1))}
    return obs
