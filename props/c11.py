"""C11 - stacked USE configuration applies entries in order, including -* resets."""
from pkgcore.ebuild import misc
from pkgcore.ebuild.atom import atom
from pkgcore.ebuild.cpv import VersionedCPV
from pkgcore.restrictions import packages
from sx import core
from sx.runner import Harness

ID = "C11"
MANIFEST = {
    "technique": "bounded model checking with solver-decided choice (SX engine): a history of three flag-configuration entries (scope: global, matching cat/pkg, matching =cat/pkg-1, non-matching package; tokens over f, -f, u_a, -u_a, u_b, v_a, -*, -u_*, -v_* incl. two different -PREFIX_* in one entry) is a tuple of symbolic selectors; per obligation the way entries are fed (add_bare_global/update_from_stream, merge of separately built dictionaries, merge of an optimized frozen dictionary) and the post-processing (freeze, clone, optimize with and without cache) are fixed; the engine forks over every feasible history, runs the real ChunkedDataDict/_build_cp_atom_payload/incremental_chunked code and compares pull_data(pkg, pre_defaults) for three probe packages with left-to-right application of the applicable entries",
    "level_text": "Bounded model checking, exhaustive within the bound: all histories of 3 entries over 4 scopes x 10 token sets (quick: third entry from a reduced menu) x 3 feeding patterns x 7 post-processing steps, evaluated for a package matching every entry, one matching only the unversioned ones and one matching none, with and without pre-enabled defaults: the rendered flag set equals applying the applicable entries in order (-flag removes, flag adds, -* clears, -PREFIX_* clears that prefix). Selector-only.",
    "level_note": "selector-only harness (labelled as such). Within one entry negations apply before additions (an entry is a pair of sets in the code), so no menu entry names the same flag both ways.",
}
META = {
    "modules": ["pkgcore.ebuild.misc"],
    "functions": ["misc.ChunkedDataDict.add_bare_global/add_global/update_from_stream/merge/freeze/clone/optimize/render_pkg", "misc._build_cp_atom_payload", "misc._cached_build_cp_atom_payload", "misc.incremental_chunked"],
    "bounds": {"quick": "3 entries (first: global or =cat/pkg-1; third: global or =cat/pkg-1 x 6 token sets), 3 probe packages, 2 pre_defaults", "thorough": "3 fully varied entries"},
    "outside": ["PayloadDict / render_to_payload", "histories longer than 3 entries", "more than two USE_EXPAND prefixes", "package_use_splitter text parsing (C13 covers the files)", "domain.get_package_use_unconfigured layering (use.mask/use.force are further ChunkedDataDicts built by the same code)"],
    "assumptions": [],
    "selector_only": True,
}

SCOPES = ["global", "cat/pkg", "=cat/pkg-1", "cat/other"]
TOKENS = [("f",), ("-f",), ("u_a",), ("-u_a", "u_b"), ("-*",), ("-*", "f"), ("-u_*",), ("-u_*", "u_b"), ("-u_*", "-v_*", "f"), ("v_a", "u_a")]
FEEDS = ["direct", "merge-each", "merge-optimized-frozen-tail"]
POSTS = ["none", "freeze", "optimize", "optimize-cache", "freeze+optimize", "clone", "clone-unfreeze-of-frozen"]
PROBES = ["cat/pkg-1", "cat/pkg-2", "cat/other-1"]


def mk_entry(scope, toks):
    neg = tuple(t[1:] for t in toks if t.startswith("-"))
    pos = tuple(t for t in toks if not t.startswith("-"))
    key = packages.AlwaysTrue if scope == "global" else atom(scope)
    return misc.chunked_data(key, neg, pos)


def feed(d, entry):
    if entry.key is packages.AlwaysTrue:
        d.add_bare_global(entry.neg, entry.pos)
    else:
        d.update_from_stream([entry])


def reference(entries, pkg, pre):
    s = set(pre)
    for scope, toks in entries:
        if scope != "global" and not atom(scope).match(pkg):
            continue
        # negations of an entry apply before its additions
        for t in toks:
            if t == "-*":
                s.clear()
        for t in toks:
            if t.startswith("-") and t.endswith("_*"):
                s = {x for x in s if not x.startswith(t[1:-1])}
        for t in toks:
            if t.startswith("-") and not t.endswith("*"):
                s.discard(t[1:])
        for t in toks:
            if not t.startswith("-"):
                s.add(t)
    return s


class StackHarness(Harness):
    active = frozenset()

    def region(self, name, inp):
        self.active = set(self.active) | {name}
        return False

    def setup(self, eng):
        ob = self.ob
        inp = {"s1": ob["s1"], "t1": eng.int("tokens1", 0, len(TOKENS) - 1), "s2": eng.int("scope2", 0, len(SCOPES) - 1), "t2": eng.int("tokens2", 0, len(TOKENS) - 1)}
        if ob["full3"]:
            inp.update(s3=eng.int("scope3", 0, len(SCOPES) - 1), t3=eng.int("tokens3", 0, len(TOKENS) - 1))
        else:
            inp.update(s3=eng.int("scope3", 0, 1), t3=eng.int("tokens3", 0, 5))
        return inp

    def body(self, inp):
        ob = self.ob
        c = core.fix(inp) if core.ENG is not None else inp
        if ob["full3"]:
            e3 = (SCOPES[c["s3"]], TOKENS[c["t3"]])
        else:
            e3 = (SCOPES[(0, 2)[c["s3"]]], TOKENS[(0, 1, 4, 6, 8, 9)[c["t3"]]])
        entries = [(SCOPES[c["s1"]], TOKENS[c["t1"]]), (SCOPES[c["s2"]], TOKENS[c["t2"]]), e3]
        ch = [mk_entry(*e) for e in entries]
        d = misc.ChunkedDataDict()
        fd = ob["feed"]
        if fd == "direct":
            for e in ch:
                feed(d, e)
        elif fd == "merge-each":
            for e in ch:
                o = misc.ChunkedDataDict()
                feed(o, e)
                d.merge(o)
        else:
            feed(d, ch[0])
            o = misc.ChunkedDataDict()
            feed(o, ch[1])
            feed(o, ch[2])
            o.optimize()
            o.freeze()
            d.merge(o)
        post = ob["post"]
        if post == "freeze":
            d.freeze()
        elif post == "optimize":
            d.optimize()
        elif post == "optimize-cache":
            d.optimize(cache={})
        elif post == "freeze+optimize":
            d.freeze()
            d.optimize()
        elif post == "clone":
            d = d.clone()
        elif post == "clone-unfreeze-of-frozen":
            d.freeze()
            d = d.clone(unfreeze=True)
            # a clone must be independently extendable
            d.add_bare_global((), ())
        out = {"entries": [[s, list(t)] for s, t in entries], "feed": fd, "post": post, "got": {}, "want": {}}
        for p in PROBES:
            pkg = VersionedCPV(p)
            for pre in ((), ("f", "u_a", "v_b")):
                k = f"{p}|pre={','.join(pre)}"
                out["got"][k] = sorted(d.pull_data(pkg, pre_defaults=pre))
                out["want"][k] = sorted(reference(entries, pkg, pre))
        return out

    def prop(self, inp, obs):
        return obs["got"] == obs["want"]


def harness(ob):
    return StackHarness(ob)


UNIVERSE = {}


def obligations(tier, seed):
    obs = []
    for fd in FEEDS:
        for post in POSTS:
            for s1 in range(len(SCOPES)):
                if tier == "quick" and s1 in (1, 3):
                    continue
                obs.append({"oid": f"feed={fd}|post={post}|scope1={SCOPES[s1]}", "feed": fd, "post": post, "s1": s1, "full3": tier != "quick", "max_paths": 2000000, "max_s": 2400})
    UNIVERSE[tier] = {"obligations": len(obs)}
    return obs
