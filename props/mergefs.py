"""Shared scaffolding for the merge checks (C18, C19): solver-chosen package images and pre-existing roots on a real scratch
directory, snapshots of a tree, and the expected result of merging."""
import os
import shutil
import stat
import tempfile

from pkgcore.fs import livefs

# ---- the package image: every slot is one path with a menu of shapes
#   /d            directory (mode 0o750)
#   /d/f          file "AAAA" | symlink -> ../t | fifo
#   /d/g          absent | file hardlinked to /d/f (when that is a file) | file "BB" with an odd mode
#   /s            directory
#   /s/x y        file with a space in its name
#   /l            absent | symlink -> d (directory) | dangling symlink -> nowhere | symlink -> s/x y
NEW_F = ["file", "symlink", "fifo"]
NEW_G = ["absent", "hardlink", "file"]
NEW_L = ["absent", "sym-to-dir", "sym-dangling", "sym-to-file"]
# ---- the pre-existing root
PRE_D = ["absent", "dir-0700", "symlink-to-real-dir"]
PRE_F = ["absent", "file", "symlink-to-file", "file-same-size-and-mtime-with-outside-hardlink", "dangling-symlink"]
PRE_G = ["absent", "file"]
PRE_S = ["absent", "dir-0711", "dangling-symlink"]
PRE_L = ["absent", "file", "symlink"]

MT = 1_500_000_000
OWNERS = {"f": (1234, 4321), "g": (1234, 4321), "x y": (0, 4321), "s": (1234, 0), "l": (1234, 4321)}


def build_image(img, c):
    os.makedirs(os.path.join(img, "d"))
    os.makedirs(os.path.join(img, "s"))
    f = os.path.join(img, "d", "f")
    if NEW_F[c["new_f"]] == "file":
        with open(f, "w") as fh:
            fh.write("AAAA")
        os.chmod(f, 0o644)
    elif NEW_F[c["new_f"]] == "symlink":
        os.symlink("../t", f)
    else:
        os.mkfifo(f, 0o640)
    g = os.path.join(img, "d", "g")
    ng = NEW_G[c["new_g"]]
    if ng == "hardlink" and NEW_F[c["new_f"]] == "file":
        os.link(f, g)
    elif ng != "absent":
        with open(g, "w") as fh:
            fh.write("BB")
        os.chmod(g, 0o4711 if ng == "file" else 0o644)
    x = os.path.join(img, "s", "x y")
    with open(x, "w") as fh:
        fh.write("spaced")
    os.chmod(x, 0o600)
    nl = NEW_L[c["new_l"]]
    if nl != "absent":
        os.symlink({"sym-to-dir": "d", "sym-dangling": "nowhere", "sym-to-file": "s/x y"}[nl], os.path.join(img, "l"))
    os.chmod(os.path.join(img, "d"), 0o750)
    os.chmod(os.path.join(img, "s"), 0o755)
    for dp, dn, fn in os.walk(img):
        for n in dn + fn:
            p = os.path.join(dp, n)
            mode = stat.S_IMODE(os.lstat(p).st_mode)
            # recorded ownership differs from what a file created by the merging process gets
            os.lchown(p, *OWNERS.get(n, (0, 0)))
            if not os.path.islink(p):
                os.chmod(p, mode)  # chown clears set-id bits
                os.utime(p, (MT + len(n), MT + len(n)))


def build_root(root, c):
    os.makedirs(root)
    os.makedirs(os.path.join(root, "real"))
    with open(os.path.join(root, "real", "other"), "w") as fh:
        fh.write("unrelated in real")
    with open(os.path.join(root, "keep"), "w") as fh:
        fh.write("unrelated")
    with open(os.path.join(root, "t"), "w") as fh:
        fh.write("symlink target of d/f")
    pd = PRE_D[c["pre_d"]]
    d = os.path.join(root, "d")
    if pd == "dir-0700":
        os.mkdir(d, 0o700)
        os.chmod(d, 0o700)
    elif pd == "symlink-to-real-dir":
        os.symlink("real", d)
    if pd != "absent":
        with open(os.path.join(d, "keep2"), "w") as fh:
            fh.write("unrelated sibling")
        pf = PRE_F[c["pre_f"]]
        f = os.path.join(d, "f")
        if pf == "file":
            with open(f, "w") as fh:
                fh.write("old content of f, longer than the new one")
            os.chmod(f, 0o600)
            os.lchown(f, 7, 7)
            os.utime(f, (MT - 100, MT - 100))
        elif pf == "symlink-to-file":
            os.symlink("../keep", f)
        elif pf == "dangling-symlink":
            os.symlink("../not-there", f)
        elif pf != "absent":
            # looks unchanged to a size/mtime comparison; an unrelated name shares its inode
            with open(f, "w") as fh:
                fh.write("BBBB")
            os.chmod(f, 0o600)
            os.utime(f, (MT + 1, MT + 1))
            os.link(f, os.path.join(root, "outside-link"))
        if PRE_G[c.get("pre_g", 0)] == "file":
            with open(os.path.join(d, "g"), "w") as fh:
                fh.write("old content of g")
            os.chmod(os.path.join(d, "g"), 0o640)
    ps = PRE_S[c["pre_s"]]
    s = os.path.join(root, "s")
    if ps == "dir-0711":
        os.mkdir(s)
        os.chmod(s, 0o711)
    elif ps == "dangling-symlink":
        os.symlink("gone", s)
    pl = PRE_L[c["pre_l"]]
    l = os.path.join(root, "l")
    if pl == "file":
        with open(l, "w") as fh:
            fh.write("old l")
    elif pl == "symlink":
        os.symlink("keep", l)


def snapshot(top):
    """path (relative) -> description; symlinked directories are not descended into"""
    out = {}
    for dp, dn, fn in os.walk(top):
        for n in dn + fn:
            p = os.path.join(dp, n)
            st = os.lstat(p)
            rel = "/" + os.path.relpath(p, top)
            e = {"type": stat.S_IFMT(st.st_mode), "mode": stat.S_IMODE(st.st_mode), "uid": st.st_uid, "gid": st.st_gid, "ino": (st.st_dev, st.st_ino)}
            if stat.S_ISLNK(st.st_mode):
                e["target"] = os.readlink(p)
                e.pop("mode")
            else:
                e["mtime"] = int(st.st_mtime)
            if stat.S_ISREG(st.st_mode):
                with open(p, "rb") as fh:
                    e["data"] = fh.read().decode("latin1")
            out[rel] = e
    return out


def scan_image(img):
    return livefs.scan(img, offset=img)


def scratch():
    return tempfile.mkdtemp(prefix="mergefs-")


def cleanup(td):
    shutil.rmtree(td, ignore_errors=True)
