"""C44 - query strings select exactly the packages they describe."""
import itertools
import random
import re

import z3

from pkgcore.restrictions import values
from pkgcore.util import parserestrict
from pkgcore.util.parserestrict import ParseError, convert_glob, parse_match
from sx import core, dz
from sx.core import SymBool, SymStr, sstr
from sx.runner import Harness
from sx.shims import SymReModule

from . import atoms, common
from .atoms import FakePkg, ref_version_ok
from .common import SymVersion, shape, shape_str

ID = "C44"
MANIFEST = {
    "technique": "(DZ) the Python regular expression emitted by the real convert_glob for every enumerated glob is translated into a z3 regex and compared, as a language over the field alphabet and for strings of any length, with the reference translation of the glob ('*' = any string, whole-string match); (SX) the real parse_match(text) is run on enumerated query texts and the resulting restriction's match() is executed symbolically on a package whose category, name, slot, sub-slot and repository are symbolic strings and whose version digits are symbolic, and compared on every path with a reference selection written as a z3 term",
    "level_text": "Bounded symbolic model checking: language equality (unbounded string length, z3 sequence theory) for all globs of length <= 4 over {a . + - _ 1 *}; and for ~150 query texts (globs in category/package/slot/sub-slot position, repository, version operators incl. globbed targets, plain atoms) the solver proves for all field strings of the enumerated lengths over the field alphabet and all version digits that the query selects the package exactly when every glob matches its field as a whole-string pattern and the version/repository constraints hold; blocker strings must raise ParseError.",
    "level_note": "Trusted: SX engine, SymRegex (values.re is bound to a symbolic regex module while the restriction is built and matched), my regex->z3 translation (literals, escapes, '.', '.*', anchors) and the glob reference. Counterexamples are replayed natively.",
}
META = {
    "modules": ["pkgcore.util.parserestrict", "pkgcore.restrictions.values", "pkgcore.ebuild.atom", "pkgcore.ebuild.restricts"],
    "functions": ["parserestrict.parse_match", "parserestrict.convert_glob", "parserestrict.collect_ops", "parserestrict.parse_globbed_version", "values.StrRegex.__init__/match", "values.StrExactMatch.match", "atom.match (plain atom strings)"],
    "shims": ["values.re -> SymReModule (symbolic regex matcher)", "cpv.int/ord/isinstance, str/isinstance in values/restricts/collections"],
    "bounds": {"quick": "regex language: all globs of length <=4 over 7 symbols (1245 accepted/rejected); selection: ~150 texts x field-length shapes (category/package 1-3 symbolic characters over {a,b,.,+,-,1}, slot/sub-slot 1-2 characters), version shapes [1],[1,1],[1]-r1", "thorough": "globs of length <=5; field lengths up to 4"},
    "outside": ["field strings longer than 4", "globs with more than 3 '*'", "non-ASCII"],
    "assumptions": ["field alphabet [A-Za-z0-9+_.-] for the language comparison"],
    "selector_only": False,
}

ALPHA = "ab.+-1"


# ---------------------------------------------------------------- DZ: regex language
def _re_to_z3(pat):
    import re._constants as C
    import re._parser as P

    def conv(seq):
        parts = []
        for op, av in seq:
            if op is C.LITERAL:
                parts.append(z3.Re(chr(av)))
            elif op is C.ANY:
                parts.append(z3.Range(chr(32), chr(126)))
            elif op is C.AT:
                continue
            elif op is C.MAX_REPEAT:
                lo, hi, sub = av
                r = conv(sub)
                if lo == 0 and hi is C.MAXREPEAT:
                    parts.append(z3.Star(r))
                elif lo == 1 and hi is C.MAXREPEAT:
                    parts.append(z3.Plus(r))
                elif lo == 0 and hi == 1:
                    parts.append(z3.Option(r))
                else:
                    raise ValueError("repeat %s,%s" % (lo, hi))
            elif op is C.IN:
                alts = []
                for o, a in av:
                    if o is C.LITERAL:
                        alts.append(z3.Re(chr(a)))
                    elif o is C.RANGE:
                        alts.append(z3.Range(chr(a[0]), chr(a[1])))
                    else:
                        raise ValueError("class item %s" % o)
                parts.append(z3.Union(*alts) if len(alts) > 1 else alts[0])
            elif op is C.SUBPATTERN:
                parts.append(conv(av[3]))
            else:
                raise ValueError("regex op %s" % op)
        if not parts:
            return z3.Re("")
        return z3.Concat(*parts) if len(parts) > 1 else parts[0]

    return conv(P.parse(pat))


def _glob_to_z3(g):
    anyc = z3.Star(z3.Range(chr(32), chr(126)))
    parts = [anyc if c == "*" else z3.Re(c) for c in g]
    return z3.Concat(*parts) if len(parts) > 1 else parts[0]


class GlobLangHarness(Harness):
    def run_custom(self, tier, regions):
        ob = self.ob
        D = dz.DZ(timeout_ms=20000)
        n = 0
        for g in ob["globs"]:
            n += 1
            try:
                r = convert_glob(g)
            except ParseError:
                continue
            if r is None or isinstance(r, values.StrExactMatch):
                ok = (r is None and g in ("*", "")) or (r is not None and "*" not in g and r.exact == g and not r.negate and r.case_sensitive)
                if not ok:
                    return D.result(ob, "violated", cex=self._cex(g, repr(r)))
                continue
            if not isinstance(r, values.StrRegex) or r.negate or not r.ismatch or r.flags:
                return D.result(ob, "violated", cex=self._cex(g, repr(r)))
            s = z3.String("s")
            fa = z3.Plus(z3.Union(z3.Range("a", "z"), z3.Range("A", "Z"), z3.Range("0", "9"), z3.Re("+"), z3.Re("_"), z3.Re("."), z3.Re("-")))
            try:
                rx = _re_to_z3(r.regex)
            except ValueError as e:
                return D.result(ob, "inconclusive", reason="regex translation: %s" % e)
            res, m = D.check(z3.InRe(s, fa), z3.InRe(s, rx) != z3.InRe(s, _glob_to_z3(g)))
            if res == "sat":
                w = m[s].as_string()
                return D.result(ob, "violated", cex=self._cex(g, r.regex, w))
            if res == "unknown":
                return D.result(ob, "inconclusive", reason="solver unknown on glob %r" % g)
        return D.result(ob, "discharged", paths=n, nvars=1, nontrivial=True)

    def _cex(self, g, got, w=None):
        nat = self.body({"glob": g, "witness": w})
        return {"cinp": {"glob": g, "witness": w}, "native": nat, "predicted": nat, "expected": {"fnmatch": None if w is None else _glob_ref_concrete(g, w)}}

    def body(self, cinp):
        g, w = cinp["glob"], cinp.get("witness")
        try:
            r = convert_glob(g)
        except ParseError:
            return {"restriction": "ParseError"}
        out = {"restriction": repr(r).split(" @")[0]}
        if w is not None and r is not None:
            out["match"] = bool(r.match(w))
        return out


def _glob_ref_concrete(g, w):
    return re.fullmatch("".join(".*" if c == "*" else re.escape(c) for c in g), w, re.S) is not None


# ---------------------------------------------------------------- SX: selection
def glob_term(glob, s):
    """whole-string shell-pattern match of a concrete glob against a (symbolic) string as a z3 Bool"""
    if glob in (None, "", "*"):
        return z3.BoolVal(True)
    items = list(core.items_of(s))
    n, m = len(glob), len(items)
    T = [[None] * (m + 1) for _ in range(n + 1)]
    for i in range(n, -1, -1):
        for j in range(m, -1, -1):
            if i == n:
                T[i][j] = z3.BoolVal(j == m)
            elif glob[i] == "*":
                T[i][j] = z3.Or(T[i + 1][j], T[i][j + 1]) if j < m else T[i + 1][j]
            else:
                T[i][j] = z3.And(core.unwrap_bool(core.ceq(items[j], glob[i])) if not isinstance(core.ceq(items[j], glob[i]), bool) else z3.BoolVal(core.ceq(items[j], glob[i])), T[i + 1][j + 1]) if j < m else z3.BoolVal(False)
    return z3.simplify(T[0][0])


def spec_text(sp):
    t = sp.get("op", "")
    if sp.get("cat") is not None:
        t += sp["cat"] + "/"
    t += sp["pkg"]
    if sp.get("ver"):
        t += "-" + "V"
    if sp.get("slot") is not None or sp.get("subslot") is not None:
        t += ":" + (sp.get("slot") or "")
        if sp.get("subslot") is not None:
            t += "/" + sp["subslot"]
    if sp.get("repo"):
        t += "::" + sp["repo"]
    return t


class SelectHarness(Harness):
    def shims(self):
        return atoms.shims() + [(values, "re", SymReModule())]

    def setup(self, eng):
        ob = self.ob
        L = ob["lens"]
        inp = {}
        for f in ("cat", "pkg", "slot", "subslot", "repo"):
            first = "ab1" if f in ("cat", "pkg") else ALPHA.replace(".", "").replace("-", "").replace("+", "")
            cs = [eng.char(f"{f}0", first)] + [eng.char(f"{f}{i}", ALPHA) for i in range(1, L[f])]
            inp[f] = SymStr(cs)
        self.PV = SymVersion(eng, "p", ob["pver"])
        inp["p"] = self.PV.inp()
        self.AV = None
        if ob["spec"].get("ver"):
            # the version written in the query is concrete (digits 1): the text has to stay a plain str
            self.AV = SymVersion(eng, "a", ob["spec"]["ver"])
            for ds in self.AV.comps + ([self.AV.rev] if self.AV.rev else []):
                for d in ds:
                    eng.assume(d == 49)
        return inp

    def _text(self, inp):
        t = spec_text(self.ob["spec"])
        if self.ob["spec"].get("ver"):
            t = t.replace("V", atoms.rep_version(self.ob["spec"]["ver"]))
        return t

    def body(self, inp):
        pv = inp["p"]
        pkg = FakePkg(pv["ver"], pv["rev"], slot=inp["slot"], subslot=inp["subslot"], repo=inp["repo"], category=inp["cat"], package=inp["pkg"])
        text = self._text(inp)
        if core.ENG is not None and not isinstance(text, str):
            raise core.Unsupported("symbolic query text")
        with core.building():
            try:
                r = parse_match(text)
            except ParseError:
                return {"parsed": False, "match": None}
            return {"parsed": True, "match": r.match(pkg)}

    def prop(self, inp, obs):
        sp = self.ob["spec"]
        if self.ob.get("expect_error"):
            return obs["parsed"] is False
        if not obs["parsed"]:
            return False
        conds = [glob_term(sp.get("cat"), inp["cat"]), glob_term(sp["pkg"], inp["pkg"])]
        if sp.get("slot") is not None:
            conds.append(glob_term(sp["slot"], inp["slot"]))
        if sp.get("subslot") is not None:
            conds.append(glob_term(sp["subslot"], inp["subslot"]))
        if sp.get("repo"):
            conds.append(glob_term(sp["repo"], inp["repo"]))
        if sp.get("op"):
            conds.append(ref_version_ok(sp["op"], self.AV, self.PV))
        return core.unwrap_bool(obs["match"]) == z3.And(conds)


def harness(ob):
    return GlobLangHarness(ob) if ob["kind"] == "lang" else SelectHarness(ob)


UNIVERSE = {}
GLOBS = ["*", "a*", "*a", "a*b", "*a*", "a.*", "*+*", "a+*", "*-b", "ab", "a", "a+b", "*.*", "a*+", "1*", "*1"]


def obligations(tier, seed):
    rng = random.Random(seed)
    obs = []
    L = 4 if tier == "quick" else 5
    syms = "a.+-_1*"
    allg = ["".join(p) for n in range(1, L + 1) for p in itertools.product(syms, repeat=n)]
    allg = [g for g in allg if "**" not in g or rng.random() < 0.2]
    if tier != "quick":
        allg = [g for g in allg if len(g) < 5 or rng.random() < 0.15]
    for i in range(0, len(allg), 40):
        obs.append({"oid": "lang:%s..%s" % (allg[i], allg[min(i + 39, len(allg) - 1)]), "kind": "lang", "globs": allg[i:i + 40]})
    specs = []
    for cg, pg in itertools.product(GLOBS[:12], GLOBS[:12]):
        if rng.random() < (0.25 if tier == "quick" else 0.8) or "*" not in cg + pg:
            specs.append({"cat": cg, "pkg": pg})
    for pg in GLOBS:
        if "*" in pg:
            specs.append({"pkg": pg})
    for sg, ssg in (("0", None), ("*", None), ("a*", None), ("0", "1.*"), ("a", "*"), ("*", "1*"), ("*a", "b"), ("1", "1"), ("a*", "*1"), (None, "1*")):
        if sg is None:
            continue
        specs.append({"cat": "a*", "pkg": "*", "slot": sg, "subslot": ssg})
        specs.append({"pkg": "b*", "slot": sg, "subslot": ssg})
        specs.append({"cat": "ab", "pkg": "ab", "slot": sg, "subslot": ssg})
    for rp in ("a", "ab"):
        specs.append({"cat": "a*", "pkg": "*", "repo": rp})
        specs.append({"cat": "ab", "pkg": "b", "repo": rp})
        specs.append({"pkg": "*a", "slot": "1", "repo": rp})
    for op in ("<", "<=", "=", ">=", ">", "~"):
        for v in (shape([1]), shape([1, 1])):
            specs.append({"op": op, "cat": "ab", "pkg": "ab", "ver": v})
            specs.append({"op": op, "pkg": "ab", "ver": v})
            specs.append({"op": op, "cat": "*", "pkg": "a*", "ver": v})
            specs.append({"op": op, "cat": "a*", "pkg": "ab", "ver": v})
            specs.append({"op": op, "cat": "a*", "pkg": "ab", "ver": v, "slot": "1"})
            specs.append({"op": op, "cat": "ab", "pkg": "ab", "ver": v, "slot": "a*"})
    lens_menu = [{"cat": 2, "pkg": 2, "slot": 1, "subslot": 2, "repo": 1}, {"cat": 3, "pkg": 2, "slot": 2, "subslot": 2, "repo": 2}, {"cat": 2, "pkg": 3, "slot": 1, "subslot": 1, "repo": 2}, {"cat": 1, "pkg": 1, "slot": 1, "subslot": 1, "repo": 1}]
    if tier != "quick":
        lens_menu.append({"cat": 4, "pkg": 3, "slot": 2, "subslot": 3, "repo": 2})
    pvers = [shape([1]), shape([1, 1]), shape([1], rev=1)]
    for k, sp in enumerate(specs):
        for li, lens in enumerate(lens_menu):
            if tier == "quick" and (k + li) % 2 and "op" not in sp:
                continue
            pv = pvers[(k + li) % 3]
            obs.append({"oid": "select:%s|lens=%s|p=%s" % (spec_text(sp).replace("V", shape_str(sp["ver"]) if sp.get("ver") else ""), "".join(str(lens[f]) for f in ("cat", "pkg", "slot", "subslot", "repo")), shape_str(pv)), "kind": "select", "spec": sp, "lens": lens, "pver": pv, "max_paths": 100000})
    for t in ("!a/b", "!!a/b", "a/b!", "!*", ">=!a/b-1", "a*/!b"):
        obs.append({"oid": "blocker:" + t, "kind": "select", "spec": {"pkg": t}, "lens": lens_menu[3], "pver": pvers[0], "expect_error": True})
    UNIVERSE[tier] = {"globs": len(allg), "query_texts": len(specs)}
    return obs
