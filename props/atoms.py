"""Shared helpers for the atom properties (C02, C04, C05, C07, C44, C45): real atom
objects whose version fields are replaced by symbolic strings of the same shape
("construct the state directly"; parsing is C03's subject), fake packages and the
reference matching semantics as z3 terms."""
import collections

import z3

from pkgcore.ebuild import atom as atom_mod
from pkgcore.ebuild import cpv, restricts
from pkgcore.restrictions import packages, values
from sx import core
from sx.core import SymBool, SymInt, SymStr, sstr
from sx.shims import SymRegex, builtin_bindings, sym_isinstance, sym_str

from .common import SymVersion, ref_cmp, shape_str

OPS = ("", "<", "<=", "=", "~", ">=", ">", "=*")


def shims():
    """module-global rebindings needed for symbolic versions / slots to flow through atom.match & co"""
    return (
        builtin_bindings(cpv, ("int", "ord", "isinstance"))
        + [
            (cpv, "suffix_regexp", SymRegex(cpv.suffix_regexp)),
            (collections, "str", sym_str),
            (collections, "isinstance", sym_isinstance),
            (restricts, "str", sym_str),
            (values, "str", sym_str),
            (values, "isinstance", sym_isinstance),
        ]
    )


def rep_version(sh):
    """a concrete representative of a shape (all digits 1, letter a)"""
    s = ".".join("1" * n for n in sh["comps"])
    if sh["letter"]:
        s += "a"
    for kw, n in sh["suf"]:
        s += "_" + kw + "1" * n
    if sh["rev"] is not None:
        s += "-r" + "1" * sh["rev"]
    return s


def atom_text(spec, version=None):
    """concrete atom string for a spec dict: blk, op, ver(shape)|None, slot, subslot, slotop, repo, use;
    version=(ver, rev) overrides the representative version text"""
    s = spec.get("blk", "")
    op = spec.get("op", "")
    s += "=" if op == "=*" else op
    s += spec.get("key", "cat/pkg")
    if op:
        if version is not None:
            s += "-" + version[0] + ("-r" + version[1] if version[1] else "")
        else:
            s += "-" + rep_version(spec["ver"])
        if op == "=*":
            s += "*"
    if spec.get("slot") or spec.get("slotop"):
        s += ":" + (spec.get("slot") or "")
        if spec.get("subslot"):
            s += "/" + spec["subslot"]
        if spec.get("slotop"):
            s += spec["slotop"]
    if spec.get("repo"):
        s += "::" + spec["repo"]
    if spec.get("use"):
        s += "[" + ",".join(spec["use"]) + "]"
    return s


def set_version(a, ver, rev):
    """replace the version state of a real atom by (possibly symbolic) strings"""
    c = a._cpv
    sf = object.__setattr__
    revobj = cpv.Revision(rev)
    sf(c, "version", ver)
    sf(c, "revision", revobj)
    full = ver + "-r" + rev if rev else ver
    sf(c, "fullver", full)
    sf(c, "cpvstr", c.key + "-" + full)
    sf(a, "cpvstr", c.key + "-" + full)
    return a


def mk_atom(spec, ver=None, rev=None, slot=None, subslot=None, repo=None, negate_vers=False):
    """real atom from the representative text, then symbolic fields patched in"""
    a = atom_mod.atom(atom_text(spec), negate_vers=False)
    sf = object.__setattr__
    if negate_vers is not False:
        sf(a, "negate_vers", negate_vers)
    if spec.get("op"):
        set_version(a, ver, rev)
    if slot is not None:
        sf(a, "slot", slot)
    if subslot is not None:
        sf(a, "subslot", subslot)
    if repo is not None:
        sf(a, "repo_id", repo)
    return a


class Repo:
    def __init__(self, repo_id):
        self.repo_id = repo_id


class FakePkg:
    """the attributes atom restrictions read"""

    def __init__(self, ver, rev, slot="0", subslot="0", repo="r", use=(), iuse=(), category="cat", package="pkg"):
        self.category = category
        self.package = package
        self.key = category + "/" + package
        self.version = ver
        self.revision = cpv.Revision(rev)
        self.fullver = ver + "-r" + rev if rev else ver
        self.cpvstr = self.key + "-" + self.fullver
        self.slot = slot
        self.subslot = subslot
        self.repo = Repo(repo)
        self.use = frozenset(use)
        self.iuse = frozenset(iuse)
        self.iuse_stripped = frozenset(x.lstrip("+-") for x in iuse)


def _items(x):
    return list(core.items_of(x))


def glob_prefix(A, P):
    """plain string-prefix relation as a z3 Bool"""
    a, p = _items(A), _items(P)
    if len(a) > len(p):
        return z3.BoolVal(False)
    return core._z3and(core.ceq(x, y) for x, y in zip(a, p))


def ref_glob(A, P):
    """=...* : atom full version text A is a prefix of package full version text P on a component
    boundary (PMS 8.3.1; portage bug 560466): the next character is absent, a separator, or of a
    different digit/non-digit class than the last written one."""
    a, p = _items(A), _items(P)
    if len(a) > len(p):
        return z3.BoolVal(False)
    pre = glob_prefix(A, P)
    if len(p) == len(a):
        return pre
    nxt, last = core.code(p[len(a)]), core.code(a[-1])
    dig = lambda c: z3.And(c >= 48, c <= 57)
    sep = z3.Or(nxt == 46, nxt == 95, nxt == 45)
    return z3.And(pre, z3.Or(sep, dig(nxt) != dig(last)))


def ref_version_ok(op, AV, PV):
    """does package version PV (SymVersion) satisfy `op AV` per PMS"""
    if op == "":
        return z3.BoolVal(True)
    if op == "=*":
        return ref_glob(AV.fullver, PV.fullver)
    if op == "~":
        return ref_cmp(PV, AV, with_rev=False) == 0
    r = ref_cmp(PV, AV)
    return {"<": r < 0, "<=": r <= 0, "=": r == 0, ">=": r >= 0, ">": r > 0}[op]


def ref_use_ok(use_deps, use, iuse):
    """static USE deps of an atom against concrete use / iuse sets (python bool)"""
    for tok in use_deps:
        default = None
        if tok.endswith("(+)"):
            default, tok = True, tok[:-3]
        elif tok.endswith("(-)"):
            default, tok = False, tok[:-3]
        want = not tok.startswith("-")
        flag = tok.lstrip("-")
        if flag in iuse:
            state = flag in use
        elif default is not None:
            state = default
        else:
            state = flag in use  # flag outside IUSE without a default: read as the package reports it
        if state != want:
            return False
    return True
