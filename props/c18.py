"""C18 - merging places exactly the package contents on the live filesystem."""
import os
import stat

from pkgcore.fs import ops
from props import mergefs as M
from sx import core
from sx.runner import Harness

ID = "C18"
MANIFEST = {
    "technique": "bounded model checking with solver-decided choice (SX engine): the shape of every slot of a package image (file / symlink / fifo, hardlink partner, odd modes, a name with a space, symlinks to a directory, to a file and dangling) and of the pre-existing root (absent, same type, other type, directory reached through a symlink, dangling symlink in the way of a directory, unrelated neighbours) and the spelling of the offset are symbolic selectors; the engine forks over every feasible combination, builds both trees on a real scratch directory, runs the real livefs.scan + ops.merge_contents (copyfile, ensure_perms, do_link, mkdir) and compares lstat/data/readlink/inode snapshots before and after with the specification",
    "level_text": "Bounded model checking, exhaustive within the bound: 3 x 3 x 4 image shapes x 3 x 5 x 2 x 3 x 3 root shapes x 2 offset spellings (19440 merges): every entry exists at its location (through a pre-existing symlinked directory where there is one) with its type, data, symlink target and recorded mtime; created entries carry the recorded mode and ownership; files sharing an inode in the image share one in the root; pre-existing directories keep their permissions; no other path is created (no '#new' left-overs), changed or removed. Selector-only; real code on real files.",
    "level_note": "selector-only harness (labelled as such). Runs as the sandbox user (root), ownership 0:0. Directory mtimes are not compared (creating a child changes them).",
}
META = {
    "modules": ["pkgcore.fs.ops", "pkgcore.fs.livefs", "pkgcore.fs.contents"],
    "functions": ["ops.merge_contents", "ops.copyfile", "ops.ensure_perms", "ops.do_link", "ops.mkdir", "livefs.scan/gen_obj", "contents.offset_rewriter"],
    "bounds": {"quick": "menus of props/mergefs.py: 6 image slots, 5 root slots, 2 offset spellings", "thorough": "same (the space is swept completely in both tiers)"},
    "outside": ["device nodes", "a package symlink over a live directory (CannotOverwrite handling)", "cross-device hardlinks (EXDEV)", "non-root ownership", "trees deeper than two levels"],
    "assumptions": [],
    "selector_only": True,
}

SEL = ["new_f", "new_g", "new_l", "pre_d", "pre_f", "pre_g", "pre_s", "pre_l"]
MENUS = {"new_f": M.NEW_F, "new_g": M.NEW_G, "new_l": M.NEW_L, "pre_d": M.PRE_D, "pre_f": M.PRE_F, "pre_g": M.PRE_G, "pre_s": M.PRE_S, "pre_l": M.PRE_L}


def phys(loc, c):
    """where a contents location physically ends up below the root"""
    if M.PRE_D[c["pre_d"]] == "symlink-to-real-dir" and loc.startswith("/d/"):
        return "/real/" + loc[3:]
    return loc


def judge(c, img, before, after, exc):
    problems = []
    if exc is not None:
        return [f"merge raised {exc}"]
    d_is_link = M.PRE_D[c["pre_d"]] == "symlink-to-real-dir"
    owned = set()
    for loc, e in img.items():
        p = phys(loc, c)
        owned.add(p)
        a = after.get(p)
        if loc == "/d" and d_is_link:
            # the directory is reached through the live symlink, which stays
            if a is None or a.get("target") != "real":
                problems.append("/d: the live symlink to a directory was replaced")
            continue
        if a is None:
            problems.append(f"{loc}: missing after the merge")
            continue
        if a["type"] != e["type"]:
            problems.append(f"{loc}: type {a['type']:o} instead of {e['type']:o}")
            continue
        for k in ("data", "target", "mtime"):
            if k == "mtime" and stat.S_ISDIR(e["type"]):
                # creating the children afterwards moves a directory's mtime; not attributable to the merge
                continue
            if k in e and a.get(k) != e[k]:
                problems.append(f"{loc}: {k} {a.get(k)!r} instead of {e[k]!r}")
        b = before.get(p)
        if stat.S_ISDIR(e["type"]) and b is not None and stat.S_ISDIR(b["type"]):
            if a["mode"] != b["mode"]:
                problems.append(f"{loc}: pre-existing directory changed mode {b['mode']:o} -> {a['mode']:o}")
        else:
            for k in ("mode", "uid", "gid"):
                if k in e and a.get(k) != e[k]:
                    problems.append(f"{loc}: {k} {a.get(k)!r} instead of {e[k]!r}")
    # inode groups of the image are kept
    groups = {}
    for loc, e in img.items():
        if stat.S_ISREG(e["type"]):
            groups.setdefault(e["ino"], []).append(loc)
    for locs in groups.values():
        inos = {after[phys(l, c)]["ino"] for l in locs if phys(l, c) in after}
        if len(locs) > 1 and len(inos) > 1:
            problems.append(f"{locs}: hardlinked in the image, separate files after the merge")
    # nothing else is touched
    for p, b in before.items():
        if p in owned:
            continue
        a = after.get(p)
        if a is None:
            problems.append(f"{p}: removed although not in the contents")
            continue
        ka = {k: v for k, v in a.items() if not (k == "mtime" and stat.S_ISDIR(a["type"]))}
        kb = {k: v for k, v in b.items() if not (k == "mtime" and stat.S_ISDIR(b["type"]))}
        if ka != kb:
            # inode numbers differ from run to run: keep them out of the text
            ka.pop("ino"), kb.pop("ino")
            problems.append(f"{p}: changed although not in the contents ({kb} -> {ka})" if ka != kb else f"{p}: replaced by another inode although not in the contents")
    for p in after:
        if p not in before and p not in owned:
            problems.append(f"{p}: created although not in the contents")
    return problems


class MergeHarness(Harness):
    def setup(self, eng):
        inp = {k: eng.int(k, 0, len(MENUS[k]) - 1) for k in SEL if k not in ("pre_d", "new_l", "new_f")}
        inp.update(pre_d=self.ob["pre_d"], new_l=self.ob["new_l"], new_f=self.ob["new_f"])
        inp["slash"] = eng.bool("offset_with_trailing_slash")
        return inp

    def body(self, inp):
        c = core.fix(inp) if core.ENG is not None else inp
        td = M.scratch()
        try:
            img, root = os.path.join(td, "img"), os.path.join(td, "root")
            M.build_image(img, c)
            M.build_root(root, c)
            cset = M.scan_image(img)
            isnap = M.snapshot(img)
            before = M.snapshot(root)
            exc = None
            try:
                ops.merge_contents(cset, offset=root + ("/" if c["slash"] else ""))
            except Exception as e:
                exc = f"{type(e).__name__}: {e}".replace(td, "<scratch>")
            after = M.snapshot(root)
            problems = judge(c, isnap, before, after, exc)
        finally:
            M.cleanup(td)
        return {"shape": {k: MENUS[k][c[k]] for k in SEL}, "slash": c["slash"], "exc": exc, "problems": problems, "after": sorted(after)}

    def prop(self, inp, obs):
        return not obs["problems"]


def harness(ob):
    return MergeHarness(ob)


UNIVERSE = {}


def obligations(tier, seed):
    obs = [
        {"oid": f"pre-existing /d={M.PRE_D[i]}|/l={M.NEW_L[j]}|/d/f={M.NEW_F[k]}", "pre_d": i, "new_l": j, "new_f": k, "max_paths": 100000, "max_s": 2400}
        for i in range(len(M.PRE_D)) for j in range(len(M.NEW_L)) for k in range(len(M.NEW_F))
    ]
    UNIVERSE[tier] = {"merges": 19440}
    return obs
