"""Shared pieces of the property harnesses: the version shape grammar, symbolic
version construction, and the PMS version comparison written as a z3 term."""
import itertools
import random

import z3

from sx import core
from sx.core import SymBool, SymInt, SymStr, sstr

SUFFIXES = ("alpha", "beta", "pre", "rc", "p")
SUF_RANK = {"alpha": 0, "beta": 1, "pre": 2, "rc": 3, "p": 5}  # "no suffix" ranks 4


# A version *shape*: {"comps": [len,...], "letter": bool, "suf": [[kw, ndigits],...], "rev": None|ndigits}
def shape(comps, letter=False, suf=(), rev=None):
    return {"comps": list(comps), "letter": bool(letter), "suf": [list(s) for s in suf], "rev": rev}


def shape_str(sh):
    s = ".".join("9" * n for n in sh["comps"])
    if sh["letter"]:
        s += "x"
    for kw, n in sh["suf"]:
        s += "_" + kw + "9" * n
    if sh["rev"] is not None:
        s += "-r" + "9" * sh["rev"]
    return s


def shapes_V(n, L, s, r, letters=(False, True)):
    """the shape universe V(n, L, s, r) of DESIGN.md section 6"""
    out = []
    comps_list = [c for k in range(1, n + 1) for c in itertools.product(range(1, L + 1), repeat=k)]
    suf_list = [()]
    for k in range(1, s + 1):
        suf_list += list(itertools.product([(kw, d) for kw in SUFFIXES for d in (0, 1, 2)], repeat=k))
    revs = [None] + list(range(1, r + 1))
    for c in comps_list:
        for l in letters:
            for sf in suf_list:
                for rv in revs:
                    out.append(shape(c, l, sf, rv))
    return out


CORE_SHAPES = [
    shape([1]), shape([2]), shape([3]), shape([1, 1]), shape([1, 2]), shape([2, 1]), shape([2, 2]), shape([1, 3]),
    shape([3, 1]), shape([2, 3]),
    shape([1], letter=True), shape([1, 2], letter=True), shape([2, 2], letter=True),
    shape([1], suf=[("alpha", 0)]), shape([1], suf=[("alpha", 1)]), shape([1], suf=[("beta", 1)]),
    shape([1], suf=[("pre", 2)]), shape([1], suf=[("rc", 1)]), shape([1], suf=[("p", 0)]), shape([1], suf=[("p", 2)]),
    shape([1, 2], suf=[("p", 1)]), shape([1, 2], suf=[("rc", 0)]), shape([2, 2], suf=[("alpha", 2)]),
    shape([1], rev=1), shape([1], rev=2), shape([1, 2], rev=1), shape([2, 2], rev=2), shape([1, 1], rev=1),
    shape([1], letter=True, suf=[("p", 1)]), shape([1], letter=True, rev=1), shape([1, 2], letter=True, suf=[("beta", 0)], rev=1),
    shape([1], suf=[("pre", 1)], rev=1), shape([1], suf=[("p", 0)], rev=2), shape([2], suf=[("rc", 1)], rev=1),
    shape([1, 1], suf=[("alpha", 1)]), shape([1, 1], letter=True), shape([3], rev=1), shape([1, 3], letter=True),
    shape([2, 1], suf=[("p", 1)], rev=1), shape([1, 1], suf=[("beta", 2)], rev=2),
]


class SymVersion:
    """symbolic contents for one shape"""

    def __init__(self, eng, name, sh):
        self.sh = sh
        self.name = name
        self.comps = [eng.digits(f"{name}c{i}_", n) for i, n in enumerate(sh["comps"])]
        self.letter = eng.char(f"{name}l", "abcdefghijklmnopqrstuvwxyz") if sh["letter"] else None
        self.suf = [(kw, eng.digits(f"{name}s{i}_", n)) for i, (kw, n) in enumerate(sh["suf"])]
        self.rev = None if sh["rev"] is None else eng.digits(f"{name}r", sh["rev"])

    @property
    def ver(self):
        parts = []
        for i, ds in enumerate(self.comps):
            if i:
                parts.append(".")
            parts.append(list(ds))
        if self.letter is not None:
            parts.append(self.letter)
        for kw, ds in self.suf:
            parts.append("_" + kw)
            parts.append(list(ds))
        return sstr(*parts)

    @property
    def revstr(self):
        return "" if self.rev is None else sstr(list(self.rev))

    @property
    def fullver(self):
        if self.rev is None:
            return self.ver
        return sstr(self.ver, "-r", list(self.rev))

    def inp(self):
        return {"ver": self.ver, "rev": self.revstr}


def val(ds):
    if hasattr(ds, "intval"):
        return ds.intval
    e = z3.IntVal(0)
    for d in ds:
        e = e * 10 + (d - 48)
    return e


def _cmp_int(x, y):
    return z3.If(x < y, -1, z3.If(x > y, 1, 0))


def _efflen(ds):
    e = z3.IntVal(0)
    for i, d in enumerate(ds):
        e = z3.If(d != 48, i + 1, e)
    return e


def _stripped_cmp(x, y):
    """compare digit strings as strings after stripping trailing zeros (PMS Algorithm 3.3)"""
    la, lb = _efflen(x), _efflen(y)
    res = _cmp_int(la, lb)
    for i in reversed(range(min(len(x), len(y)))):
        both = z3.And(i < la, i < lb)
        res = z3.If(both, z3.If(x[i] < y[i], -1, z3.If(x[i] > y[i], 1, res)), res)
    return res


def ref_cmp(A, B, with_rev=True):
    """PMS Algorithm 3.1 over two SymVersion structures -> z3 Int in {-1,0,1}"""
    # revision (3.7)
    ra = val(A.rev) if A.rev is not None else z3.IntVal(0)
    rb = val(B.rev) if B.rev is not None else z3.IntVal(0)
    out = _cmp_int(ra, rb) if with_rev else z3.IntVal(0)
    # suffixes (3.5/3.6)
    sa, sb = A.suf, B.suf
    n = min(len(sa), len(sb))
    if len(sa) > n:
        tail = z3.IntVal(1 if sa[n][0] == "p" else -1)
    elif len(sb) > n:
        tail = z3.IntVal(-1 if sb[n][0] == "p" else 1)
    else:
        tail = out
    out = tail
    for i in reversed(range(n)):
        (ka, da), (kb, db) = sa[i], sb[i]
        if ka == kb:
            c = _cmp_int(val(da), val(db))
        else:
            c = z3.IntVal(-1 if SUF_RANK[ka] < SUF_RANK[kb] else 1)
        out = z3.If(c != 0, c, out)
    # letter (3.4)
    if A.letter is not None and B.letter is not None:
        c = _cmp_int(A.letter, B.letter)
    elif A.letter is not None:
        c = z3.IntVal(1)
    elif B.letter is not None:
        c = z3.IntVal(-1)
    else:
        c = z3.IntVal(0)
    out = z3.If(c != 0, c, out)
    # numeric components (3.2/3.3)
    ca, cb = A.comps, B.comps
    if len(ca) != len(cb):
        out = z3.If(z3.BoolVal(True), z3.IntVal(1 if len(ca) > len(cb) else -1), out)
    for i in reversed(range(min(len(ca), len(cb)))):
        if i == 0:
            c = _cmp_int(val(ca[0]), val(cb[0]))
        else:
            lead0 = z3.Or(ca[i][0] == 48, cb[i][0] == 48)
            c = z3.If(lead0, _stripped_cmp(ca[i], cb[i]), _cmp_int(val(ca[i]), val(cb[i])))
        out = z3.If(c != 0, c, out)
    return z3.simplify(out)


def sign(x):
    """sign of a python int / SymInt as SymInt or int (no fork)"""
    if isinstance(x, SymInt):
        return SymInt(z3.If(x.e > 0, 1, z3.If(x.e < 0, -1, 0)))
    if isinstance(x, SymBool):
        return SymInt(z3.If(x.e, 1, 0))
    return (x > 0) - (x < 0)


def pick(rng, seq, k):
    seq = list(seq)
    if len(seq) <= k:
        return seq
    return rng.sample(seq, k)
