"""C22 - contents sets behave like path-keyed maps."""
import itertools
import posixpath

from pkgcore.fs import contents, fs
from sx import core
from sx.runner import Harness

ID = "C22"
MANIFEST = {
    "technique": "bounded model checking with solver-decided choice (SX engine): the members of two contents sets, the spelling variant of every path argument (//a, /a/, /a/./b, /a/../a), the kind of argument (entry, path string, list, python set, contentsSet) and the operation are symbolic selectors; the engine forks over every feasible combination, runs the real contentsSet operation and compares with a dict keyed by normalized path",
    "level_text": "Bounded model checking, exhaustive within the bound: 18 operations x 5 argument kinds x all pairs of subsets of 4 paths (5 spellings each, solver-chosen): results equal those of a map keyed by normalised path; change_offset replaces the old prefix by the new one; add_missing_directories adds exactly the absent ancestors other than /. Selector-only.",
    "level_note": "selector-only harness (labelled as such). Trusted: the dict model. Combinations the API documents as unsupported (symmetric_difference with path strings) must raise ValueError/TypeError rather than give a wrong set.",
}
META = {
    "modules": ["pkgcore.fs.contents", "pkgcore.fs.fs"],
    "functions": ["contentsSet.add/remove/discard/__getitem__/__contains__/__delitem__", "difference/difference_update/intersection/intersection_update/union/update/symmetric_difference(_update)", "issubset/issuperset/isdisjoint", "change_offset_rewriter/insert_offset/change_offset", "add_missing_directories"],
    "bounds": {"quick": "paths {/a, /a/b, /c, /a/b/d} with 5 spellings; left set: all 16 subsets; right argument: all subsets of size <= 2 in 5 argument kinds", "thorough": "right arguments of size <= 3"},
    "outside": ["more than 4 distinct paths", "relative paths", "OrderedContentsSet"],
    "assumptions": [],
    "selector_only": True,
}

PATHS = ["/a", "/a/b", "/c", "/a/b/d"]
SPELL = [lambda p: p, lambda p: p[0] + p[1:].replace("/", "//") if "/" in p[1:] else p + "//", lambda p: p + "/", lambda p: p.replace("/a", "/a/.", 1) if p.startswith("/a") else p + "/.", lambda p: "/c/.." + p]
OPS = ["contains", "getitem", "remove", "discard", "difference", "difference_update", "intersection", "intersection_update", "union", "update", "symmetric_difference", "issubset", "issuperset", "isdisjoint"]
KINDS = ["entries", "strings", "pyset-strings", "contentsSet", "iterator-entries", "strings-dup", "entries+strings"]


def mk(p, tag="L"):
    if p == "/c":
        return fs.fsSymlink(p, "a", strict=False, mtime=1 if tag == "L" else 2)
    if p == "/a/b/d" or p == "/c/e":
        return fs.fsFile(p, strict=False, mtime=1 if tag == "L" else 2)
    return fs.fsDir(p, strict=False, mtime=1 if tag == "L" else 2)


def snap(cs):
    return sorted((o.location, type(o).__name__) for o in cs)


class SetHarness(Harness):
    def setup(self, eng):
        ob = self.ob
        import z3

        inp = {"left": [eng.bool(f"l{i}") for i in range(4)], "right": [eng.bool(f"r{i}") for i in range(4)], "spell": [eng.int(f"s{i}", 0, len(SPELL) - 1) for i in range(4)]}
        for r, sp in zip(inp["right"], inp["spell"]):
            eng.assume(z3.Implies(z3.Not(r.e), sp.e == 0))
        eng.assume(z3.PbLe([(r.e, 1) for r in inp["right"]], ob["rmax"]))
        if ob["op"] in ("contains", "getitem", "remove", "discard"):
            eng.assume(z3.PbEq([(r.e, 1) for r in inp["right"]], 1))
        return inp

    def body(self, inp):
        ob = self.ob
        c = core.fix(inp) if core.ENG is not None else inp
        op, kind = ob["op"], ob["kind"]
        L = [p for p, on in zip(PATHS, c["left"]) if on]
        R = [p for p, on in zip(PATHS, c["right"]) if on]
        if len(R) > ob["rmax"]:
            return {"skip": True}
        spelled = [SPELL[c["spell"][PATHS.index(p)]](p) for p in R]
        left = contents.contentsSet([mk(p) for p in L], mutable=True)
        if kind == "entries":
            arg = [mk(p, "R") for p in R]
        elif kind == "strings":
            arg = list(spelled)
        elif kind == "pyset-strings":
            arg = set(spelled)
        elif kind == "contentsSet":
            arg = contents.contentsSet([mk(p, "R") for p in R])
        elif kind == "strings-dup":
            # the same path named twice, in two spellings
            arg = list(spelled) + [SPELL[2](p) for p in R]
        elif kind == "entries+strings":
            arg = [mk(p, "R") for p in R] + list(spelled)
        else:
            arg = iter([mk(p, "R") for p in R])
        single = (arg[0] if isinstance(arg, list) and arg else None)
        model = {p: "L" for p in L}
        Rn = list(R)
        out = {"L": L, "R": spelled, "kind": kind, "op": op}
        try:
            if op in ("contains", "getitem", "remove", "discard"):
                if single is None or kind not in ("entries", "strings"):
                    return {"skip": True}
                p = Rn[0]
                if op == "contains":
                    out["got"] = single in left
                    out["want"] = p in model
                elif op == "getitem":
                    try:
                        out["got"] = left[single].location
                    except KeyError:
                        out["got"] = "KeyError"
                    out["want"] = p if p in model else "KeyError"
                else:
                    try:
                        getattr(left, op)(single)
                        out["got"] = snap(left)
                    except KeyError:
                        out["got"] = "KeyError"
                    if p in model:
                        out["want"] = sorted((q, type(mk(q)).__name__) for q in L if q != p)
                    else:
                        out["want"] = "KeyError" if op == "remove" else snap(left)
                return out
            if op in ("issubset", "issuperset", "isdisjoint"):
                out["got"] = getattr(left, op)(arg)
                out["want"] = {"issubset": set(L) <= set(Rn), "issuperset": set(L) >= set(Rn), "isdisjoint": not (set(L) & set(Rn))}[op]
                return out
            if op in ("update", "union", "symmetric_difference") and kind in ("strings", "pyset-strings", "strings-dup", "entries+strings"):
                # operations that add members need entries; path strings are outside the claim
                return {"skip": True}
            res = getattr(left, op)(arg)
            target = left if res is None else res
            out["got"] = snap(target)
            if op in ("difference", "difference_update"):
                want = [q for q in L if q not in Rn]
            elif op in ("intersection", "intersection_update"):
                want = [q for q in L if q in Rn]
            elif op in ("union", "update"):
                want = sorted(set(L) | set(Rn))
            else:
                want = sorted(set(L) ^ set(Rn))
            out["want"] = sorted((q, type(mk(q)).__name__) for q in want)
            return out
        except Exception as e:
            out["got"] = "exception " + type(e).__name__
            out.setdefault("want", None)
            return out

    def prop(self, inp, obs):
        if obs.get("skip"):
            return True
        return obs["got"] == obs["want"]


class StructHarness(Harness):
    """change_offset / insert_offset / add_missing_directories"""

    def setup(self, eng):
        return {"left": [eng.bool(f"l{i}") for i in range(5)], "off": eng.int("off", 0, 3)}

    def body(self, inp):
        c = core.fix(inp) if core.ENG is not None else inp
        L = [p for p, on in zip(PATHS + ["/c/e"], c["left"]) if on]
        OFFS = [("/", "/o"), ("/a", "/z"), ("/a/", "/"), ("/", "/o/p/")]
        old, new = OFFS[c["off"]]
        cs = contents.contentsSet([mk(p) for p in L], mutable=True)
        out = {"L": L, "off": [old, new]}
        if all(p == old.rstrip("/") or p.startswith(old.rstrip("/") + "/") for p in L):
            moved = cs.change_offset(old, new)
            out["moved"] = snap(moved)
            out["want_moved"] = sorted((posixpath.normpath("/" + (new + "/" + p[len(old.rstrip("/")):]).lstrip("/")), type(mk(p)).__name__) for p in L)
        ins = cs.insert_offset("/img")
        out["inserted"] = snap(ins)
        out["want_inserted"] = sorted(("/img" + p, type(mk(p)).__name__) for p in L)
        cs.add_missing_directories(mtime=5)
        out["completed"] = snap(cs)
        anc = set()
        for p in L:
            q = posixpath.dirname(p)
            while q != "/":
                anc.add(q)
                q = posixpath.dirname(q)
        want = {p: type(mk(p)).__name__ for p in L}
        for a in anc:
            want.setdefault(a, "fsDir")
        out["want_completed"] = sorted(want.items())
        return out

    def prop(self, inp, obs):
        return obs.get("moved") == obs.get("want_moved") and obs["inserted"] == obs["want_inserted"] and [tuple(x) for x in obs["completed"]] == [tuple(x) for x in obs["want_completed"]]


def harness(ob):
    return StructHarness(ob) if ob["op"] == "struct" else SetHarness(ob)


UNIVERSE = {}


def obligations(tier, seed):
    obs = []
    for op in OPS:
        for kind in KINDS:
            obs.append({"oid": f"{op}|{kind}", "op": op, "kind": kind, "rmax": 2 if tier == "quick" else 3, "max_paths": 3000000, "max_s": 2400})
    obs.append({"oid": "struct", "op": "struct"})
    UNIVERSE[tier] = {"op_kind_pairs": len(obs)}
    return obs
