"""C30 - world-file updates record exactly the requested entries."""
import itertools
import os
import shutil
import tempfile

import z3

from pkgcore.ebuild.atom import atom
from pkgcore.pkgsets import filelist
from pkgcore.scripts import pmerge
from sx import core
from sx.core import SymStr
from sx.runner import Harness
from sx.shims import patched

ID = "C30"
MANIFEST = {
    "technique": "bounded model checking with solver-decided choice (SX engine): the slot of the atom being recorded is a string of 1-3 symbolic characters over the slot alphabet {0-9 . a b _} constrained to valid slot strings; the engine forks over every feasible slot, the operation (add/remove through pmerge.update_worldset), the initial world file and an injected write fault, and runs the real WorldFile/FileList code against a real scratch file; the resulting file text is compared with the specification",
    "level_text": "Bounded model checking, exhaustive within the bound: for every valid slot string of length <= 3 over a 13-character alphabet (so 0, 00, 10, 1.2, 3.11 are all covered), unslotted and sub-slotted atoms, four initial world files and add/remove, the world file after the update holds exactly the previous entries plus/minus `key` (slot 0 or none) or `key:slot`; with a fault injected into the atomic writer the previous file is left byte-identical. Selector-only (the solver enumerates the slot strings); runs the unmodified code on a real file.",
    "level_note": "selector-only harness, labelled as such. The atomic replacement is observed on a real file-system (scratch directory); the fault is injected by making AtomicWriteFile.write raise.",
}
META = {
    "modules": ["pkgcore.pkgsets.filelist", "pkgcore.scripts.pmerge"],
    "functions": ["filelist.WorldFile.add/remove/_modify", "filelist.FileList.flush/_parse/add/remove", "pmerge.update_worldset"],
    "bounds": {"quick": "slots: all valid strings of length 1-2 over {0,1,2,3,9,.,a,b,_,-,+,5,7} plus length 3 starting with 0, 1 or a; 4 initial files; add and remove; fault on/off", "thorough": "all valid slots of length <= 3"},
    "outside": ["slots longer than 3 characters", "nested @set references", "concurrent writers"],
    "assumptions": [],
    "selector_only": True,
}

ALPHA = "01239.ab_-+57"
INITIALS = [[], ["cat/other"], ["cat/other", "cat/pkg"], ["cat/other", "cat/pkg:7", "zzz/last:1.2"]]


class WorldHarness(Harness):
    def setup(self, eng):
        L = self.ob["slen"]
        inp = {"slot": SymStr([eng.char(f"s{i}", ALPHA) for i in range(L)]) if L else "", "init": eng.int("init", 0, len(INITIALS) - 1), "fault": eng.bool("fault"), "preexisting": eng.bool("preexisting")}
        if L:
            eng.assume(core.char_in(inp["slot"].items[0], self.ob.get("first") or "01239ab_57"))
        return inp

    def body(self, inp):
        sym = core.ENG is not None
        ob = self.ob
        slot, init, fault, pre = (core.fix(inp[k]) for k in ("slot", "init", "fault", "preexisting")) if sym else (inp["slot"], inp["init"], inp["fault"], inp["preexisting"])
        td = tempfile.mkdtemp(prefix="c30-")
        try:
            path = os.path.join(td, "world")
            want_entry = "cat/pkg" if slot in ("", "0") else "cat/pkg:" + slot
            entries = list(INITIALS[init])
            if pre and want_entry not in entries:
                entries.append(want_entry)
            before = "\n".join(sorted(entries))
            with open(path, "w") as f:
                f.write(before)
            a = atom("cat/pkg" + (":" + slot if slot else "") + ("/9" if ob.get("subslot") and slot else ""))
            w = filelist.WorldFile(path, gid=os.getgid())
            err = None
            binds = []
            if fault:
                real_awf = filelist.AtomicWriteFile

                class Faulty(real_awf):
                    def write(self, data):
                        real_awf.__getattr__(self, "write")(data[: len(data) // 2])
                        raise OSError(28, "No space left on device")

                binds.append((filelist, "AtomicWriteFile", Faulty))
            with patched(*binds):
                try:
                    pmerge.update_worldset(w, a, remove=ob["op"] == "remove")
                except OSError as e:
                    err = "OSError"
                except KeyError as e:
                    err = "KeyError"
                except Exception as e:
                    err = type(e).__name__
            after = open(path).read()
            leftovers = sorted(x for x in os.listdir(td) if x != "world")
            return {"slot": slot, "before": before.split("\n") if before else [], "after": after.split("\n") if after else [], "err": err, "leftovers": leftovers, "fault": fault, "entry": want_entry}
        finally:
            shutil.rmtree(td, ignore_errors=True)

    def prop(self, inp, obs):
        ob = self.ob
        before, after, entry = obs["before"], obs["after"], obs["entry"]
        if ob["op"] == "add":
            want = sorted(set(before) | {entry})
            changed = True
        else:
            want = sorted(set(before) - {entry})
            changed = entry in before
        if obs["fault"] and changed:
            # the writer failed: the previous file must be intact and the failure visible
            return after == before and obs["err"] == "OSError" and not obs["leftovers"]
        if obs["err"] is not None:
            return False
        return sorted(after) == want and not obs["leftovers"]


def harness(ob):
    return WorldHarness(ob)


UNIVERSE = {}


def obligations(tier, seed):
    obs = []
    for op in ("add", "remove"):
        for slen in (0, 1, 2, 3):
            for sub in (False, True):
                if sub and slen == 0:
                    continue
                if slen == 3 and tier == "quick" and sub:
                    continue
                firsts = [None] if slen < 3 else (list("01239ab_57") if tier != "quick" else list("01a"))
                for fc in firsts:
                    obs.append({"oid": f"{op}|slotlen={slen}|subslot={sub}" + (f"|first={fc}" if fc else ""), "op": op, "slen": slen, "subslot": sub, "first": fc, "max_paths": 2000000, "max_s": 2400})
    UNIVERSE[tier] = {"slots": sum(10 * 13 ** (n - 1) for n in (1, 2, 3))}
    return obs
