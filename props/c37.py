"""C37 - Bugzilla searches keep their meaning when rendered, combined and batched."""
import itertools
import random
import re
import urllib.parse

import z3

from pkgcore.bugzilla import query as Q
from pkgcore.bugzilla.enums import ChartOp, Join
from pkgcore.bugzilla.query import BugQuery, ChartGroup, Criterion
from sx import core, dz
from sx.core import SymBool, SymInt
from sx.runner import Harness

ID = "C37"
MANIFEST = {
    "technique": "(DZ) the parameter list produced by the real BugQuery.params()/__and__/any_of is interpreted by a reference Bugzilla-chart evaluator into a z3 formula over one Bool per (field, operator, value) and compared by the solver with the formula of the source query / the conjunction of the operands' formulas (slot uniqueness and OP/CP balance checked on the way); (SX) the real BugQuery.batches()/_split_axis/_rebuild_* executed symbolically with urllib.parse.urlencode replaced by a length model: the encoded length of every split value, the URL budget and the base length are unbounded symbolic integers",
    "level_text": "Bounded symbolic model checking: for every enumerated query shape (named constructors, nested any-of groups to depth 3, & combinations) the solver proves the rendered parameters denote the query and that & denotes the conjunction for every valuation of the atomic conditions; for every batching shape (<=6 split values, id or package-list axis, with other simple/chart/limit parameters riding along) it proves for all encoded value lengths and all budgets that the batches partition the values in order, repeat every other parameter, and stay within max_length - base_length whenever each single value fits. Unbounded in lengths and budgets, bounded in the number of values and query shapes.",
    "level_note": "Stub (part of the claim): urllib.parse.urlencode inside pkgcore.bugzilla.query is replaced by a model returning an object whose only observable is len(): sum over pairs of len(key)+1+L(value) plus separators, with L(value) a symbolic Int >= 1 for split values and the real encoded length for all others; query.len is bound to a sym-aware len. Trusted: my chart evaluator (AND across slots at a level, OP/CP groups with j<N>, n<N> negation, anywords = OR over values, nowords* = NOR). Counterexamples are replayed natively with concrete strings of the model's lengths.",
}
META = {
    "modules": ["pkgcore.bugzilla.query"],
    "functions": ["query.BugQuery.params", "query._render", "query.ChartGroup.render", "query.Criterion.render", "query.BugQuery.__and__", "query._merge_simple", "query.BugQuery.any_of", "query.BugQuery.batches", "query.BugQuery._split_axis", "query.BugQuery._rebuild_simple/_rebuild_chart", "named constructors ids/product/component/status/cc/keywords/flag/without_tags/package_list_any/paged"],
    "stubs": ["query.urllib.parse.urlencode -> length model", "query.len -> sym-aware len"],
    "bounds": {"quick": "render/& : all queries from a generator of 14 leaf constructors, any_of nesting to depth 3, products of up to 3 operands (about 1500 shapes, all atom valuations); batches: 1-6 split values x 8 ride-along configurations, lengths/budget/base symbolic (unbounded)", "thorough": "larger generator sample (seeded), 1-8 split values"},
    "outside": ["more than 8 split values", "Join.AND_G groups", "charts with operators other than anywords/nowordssubstr/equals/anyexact/substring"],
    "assumptions": ["multi-valued field semantics: (field, value) conditions are independent atoms", "urlencode(pairs) length = sum(len(quote(k)) + 1 + len(quote(v))) + (n-1)"],
    "selector_only": False,
}

NEG_OPS = {"nowordssubstr", "notequals", "notsubstring", "notregexp", "nowords", "notmatches"}
_ATOMS = {}


def atom(field, op, value):
    k = (field, op, value)
    if k not in _ATOMS:
        _ATOMS[k] = z3.Bool("at_%s_%s_%s" % k)
    return _ATOMS[k]


def crit_term(field, op, values, negate):
    op = str(op)
    base = op[2:] if op.startswith("no") and op in NEG_OPS else op
    pos = {"nowordssubstr": "anywordssubstr", "nowords": "anywords", "notequals": "equals", "notsubstring": "substring"}.get(op, op)
    t = core._z3or(atom(field, pos, v) for v in values)
    if op in NEG_OPS:
        t = z3.Not(t)
    if negate:
        t = z3.Not(t)
    return t


def denote_obj(q):
    """formula of the query object (independent of rendering)"""
    conds = [core._z3or(atom(k, "=", v) for v in vals) for k, vals in q.simple if vals]

    def ch(c):
        if isinstance(c, ChartGroup):
            ts = [ch(x) for x in c.children]
            return core._z3or(ts) if str(c.join) == "OR" else core._z3and(ts)
        return crit_term(c.field, c.op, c.values, c.negate)

    conds += [ch(c) for c in q.charts]
    return core._z3and(conds)


class Malformed(Exception):
    pass


def denote_params(params):
    """reference Bugzilla evaluator of a rendered parameter list -> z3 formula; raises Malformed on
    duplicated/missing slots or unbalanced OP/CP"""
    simple = {}
    slots = {}
    for k, v in params:
        m = re.fullmatch(r"([fovjn])(\d+)", k)
        if not m:
            if k in ("limit", "offset", "order"):
                continue
            simple.setdefault(k, []).append(v)
            continue
        kind, n = m.group(1), int(m.group(2))
        s = slots.setdefault(n, {"v": []})
        if kind == "v":
            s["v"].append(v)
        else:
            if kind in s:
                raise Malformed(f"duplicate {kind}{n}")
            s[kind] = v
    conds = [core._z3or(atom(k, "=", v) for v in vals) for k, vals in simple.items()]
    if slots:
        if sorted(slots) != list(range(1, max(slots) + 1)):
            raise Malformed(f"slots not contiguous from 1: {sorted(slots)}")
    stack = [("AND", conds)]
    for n in sorted(slots):
        s = slots[n]
        if "f" not in s:
            raise Malformed(f"slot {n} without field")
        if s["f"] == "OP":
            if s["v"] or "o" in s:
                raise Malformed(f"OP slot {n} carries o/v")
            stack.append((s.get("j", "AND"), []))
        elif s["f"] == "CP":
            if len(stack) < 2 or s["v"] or "o" in s or "j" in s:
                raise Malformed(f"unbalanced CP at {n}")
            j, ts = stack.pop()
            stack[-1][1].append(core._z3or(ts) if j == "OR" else core._z3and(ts))
        else:
            if "o" not in s or "j" in s:
                raise Malformed(f"slot {n} without operator")
            stack[-1][1].append(crit_term(s["f"], s["o"], s["v"], s.get("n") == "1"))
    if len(stack) != 1:
        raise Malformed("unbalanced OP")
    return core._z3and(stack[0][1])


# ---------------------------------------------------------------- query generator
LEAVES = {
    "ids12": lambda: BugQuery.ids([1, 2]), "ids23": lambda: BugQuery.ids([2, 3]), "prodA": lambda: BugQuery.product("A"), "prodB": lambda: BugQuery.product("B"), "compX": lambda: BugQuery.component("X"),
    "unres": lambda: BugQuery.unresolved(), "status": lambda: BugQuery.status("CONFIRMED", "IN_PROGRESS"), "cc": lambda: BugQuery.cc("a@b"), "kw": lambda: BugQuery.keywords("K1", "K2"), "kw2": lambda: BugQuery.keywords("K2"),
    "flag": lambda: BugQuery.flag("sanity-check", "+", "-"), "notag": lambda: BugQuery.without_tags("t1"), "pl": lambda: BugQuery.package_list_any(["c/p", "c/q"]), "paged": lambda: BugQuery().paged(5, 2),
}
CHART_LEAVES = ["kw", "kw2", "flag", "notag", "pl"]


def build(spec):
    """spec: leaf name | ["any", spec...] | ["and", spec...]"""
    if isinstance(spec, str):
        return LEAVES[spec]()
    kind, *subs = spec
    qs = [build(s) for s in subs]
    if kind == "any":
        return BugQuery.any_of(*qs)
    r = qs[0]
    for q in qs[1:]:
        r = r & q
    return r


def spec_str(spec):
    if isinstance(spec, str):
        return spec
    return "%s(%s)" % (spec[0], ",".join(spec_str(s) for s in spec[1:]))


def same_simple_key(q1, q2):
    k1 = {k: v for k, v in q1.simple}
    return any(k in k1 and tuple(k1[k]) != tuple(v) for k, v in q2.simple)


class RenderHarness(Harness):
    """DZ obligations; run_custom keeps the runner's bookkeeping"""

    def run_custom(self, tier, regions):
        ob = self.ob
        D = dz.DZ()
        try:
            qs = [build(s) for s in ob["specs"]]
        except Exception as e:
            return D.result(ob, "inconclusive", reason="cannot build: %r" % (e,))
        combined = qs[0]
        for q in qs[1:]:
            if "same-simple-key" in regions and same_simple_key(combined, q):
                return D.result(ob, "known-region")
            combined = combined & q
        params = combined.params()
        try:
            got = denote_params(params)
            parts = [denote_params(q.params()) for q in qs]
        except Malformed as e:
            return D.result(ob, "violated", cex={"cinp": {"specs": ob["specs"]}, "native": {"params": [list(p) for p in params], "malformed": str(e)}, "predicted": {"params": [list(p) for p in params], "malformed": str(e)}, "expected": {"malformed": None}})
        want = core._z3and(parts)
        obj = denote_obj(combined) if len(qs) == 1 else None
        bad = None
        r, m = D.check(got != want)
        if r == "sat":
            bad = ("rendered & differs from conjunction", m)
        elif r == "unknown":
            return D.result(ob, "inconclusive", reason="solver unknown")
        if bad is None and obj is not None:
            r, m = D.check(got != obj)
            if r == "sat":
                bad = ("rendered parameters differ from the query object", m)
        if bad:
            val = {str(d): bool(m[d]) for d in m.decls()}
            return D.result(ob, "violated", cex={"cinp": {"specs": ob["specs"]}, "native": {"params": [list(p) for p in params]}, "predicted": {"params": [list(p) for p in params]}, "expected": {"why": bad[0], "valuation": val}})
        return D.result(ob, "discharged", nvars=len(_ATOMS), nontrivial=True)

    def body(self, cinp):
        qs = [build(s) for s in cinp["specs"]]
        c = qs[0]
        for q in qs[1:]:
            c = c & q
        p = c.params()
        out = {"params": [list(x) for x in p]}
        try:
            denote_params(p)
        except Malformed as e:
            out["malformed"] = str(e)
        return out


# ---------------------------------------------------------------- batches with symbolic lengths
class LenObj:
    def __init__(self, n):
        self.sx_len = n


def sym_len(x):
    if isinstance(x, LenObj):
        return x.sx_len
    return len(x)


class BatchHarness(Harness):
    def shims(self):
        return []

    def region(self, name, inp):
        return False

    def setup(self, eng):
        n = self.ob["n"]
        return {"L": [eng.int(f"L{i}", 1) for i in range(n)], "max": eng.int("max_length"), "base": eng.int("base_length", 0)}

    def _query(self, vals):
        ob = self.ob
        if ob["axis"] == "id":
            q = BugQuery(simple=(("id", tuple(vals)),))
        else:
            q = BugQuery(charts=(Criterion("cf_stabilisation_atoms", ChartOp.ANY_WORDS, tuple(vals), splittable=True),))
        for r in ob["ride"]:
            q = LEAVES[r]() & q if ob.get("ride_first", True) else q & LEAVES[r]()
        return q

    def body(self, inp):
        ob = self.ob
        n = ob["n"]
        sym = core.ENG is not None
        if sym:
            vals = ["V%d" % i for i in range(n)]
            Ls = dict(zip(vals, inp["L"]))

            class FakeParse:
                @staticmethod
                def urlencode(pairs):
                    tot = 0
                    pairs = list(pairs)
                    for k, v in pairs:
                        tot = tot + len(urllib.parse.quote_plus(k)) + 1 + (Ls[v] if v in Ls else len(urllib.parse.quote_plus(v)))
                    if pairs:
                        tot = tot + (len(pairs) - 1)
                    return LenObj(tot)

                def __getattr__(self, a):
                    return getattr(urllib.parse, a)

            class FakeUrllib:
                parse = FakeParse()

            enc = FakeParse.urlencode
        else:
            vals = ["%d" % (10 ** (l - 1) + i) if l > len(str(i)) else "x" * l for i, l in enumerate(inp["L"])]
            vals = [("7" * (l - len(str(i))) + str(i))[:l] if l >= len(str(i)) else "9" * l for i, l in enumerate(inp["L"])]
            if len(set(vals)) != len(vals):
                vals = [chr(97 + i) * l for i, l in enumerate(inp["L"])]
            enc = lambda pairs: LenObj(len(urllib.parse.urlencode(list(pairs))))
        q = self._query(vals)
        from sx.shims import patched

        binds = [(Q, "urllib", FakeUrllib), (Q, "len", sym_len)] if sym else []
        with patched(*binds):
            out = list(q.batches(base_length=inp["base"], max_length=inp["max"]))
        res = []
        for b in out:
            ps = b.params()
            if self.ob["axis"] == "id":
                bv = [v for k, v in ps if k == "id"]
                rest = [[k, v] for k, v in ps if k != "id"]
            else:
                slot = [k[1:] for k, v in ps if v == "cf_stabilisation_atoms"][0]
                bv = [v for k, v in ps if k == "v" + slot]
                rest = [[k, v] for k, v in ps if k != "v" + slot]
            res.append({"vals": [vals.index(v) for v in bv], "rest": rest, "len": sym_len(enc(ps))})
        empty_rest = res[0]["rest"] if res else None
        single = [sym_len(enc(self._query([v]).params())) for v in vals]
        return {"batches": res, "single": single}

    def prop(self, inp, obs):
        n = self.ob["n"]
        bs = obs["batches"]
        flat = [i for b in bs for i in b["vals"]]
        conds = [z3.BoolVal(flat == list(range(n))), z3.BoolVal(all(b["rest"] == bs[0]["rest"] for b in bs)), z3.BoolVal(all(b["vals"] for b in bs) or n == 0)]
        budget = core.lift(inp["max"]) - core.lift(inp["base"])
        fits = core._z3and(core.lift(s) <= budget for s in obs["single"])
        conds.append(z3.Implies(fits, core._z3and(core.lift(b["len"]) <= budget for b in bs)))
        return z3.And(conds)


def harness(ob):
    return BatchHarness(ob) if ob["kind"] == "batch" else RenderHarness(ob)


UNIVERSE = {}


def obligations(tier, seed):
    rng = random.Random(seed)
    obs = []
    leaves = list(LEAVES)
    groups = []
    for a, b in itertools.combinations(CHART_LEAVES, 2):
        groups.append(["any", a, b])
    nested = [["any", g, c] for g in groups[:4] for c in CHART_LEAVES[:3]] + [["any", c, g] for g in groups[:3] for c in CHART_LEAVES[:2]] + [["any", ["any", groups[0], "kw"], "flag"], ["any", groups[0], groups[1]]]
    singles = leaves + groups + nested
    for s in singles:
        obs.append({"oid": "render:" + spec_str(s), "kind": "render", "specs": [s]})
    pairs = list(itertools.product(singles, repeat=2))
    rng.shuffle(pairs)
    keep = [p for p in pairs if isinstance(p[0], str) and isinstance(p[1], str)] + [p for p in pairs if not (isinstance(p[0], str) and isinstance(p[1], str))][: 400 if tier == "quick" else 3000]
    for a, b in keep:
        obs.append({"oid": "and:%s&%s" % (spec_str(a), spec_str(b)), "kind": "and", "specs": [a, b]})
    triples = [(a, b, c) for a in nested[:6] for b in singles[:20:3] for c in ("pl", "kw", "ids12")]
    for t in triples:
        obs.append({"oid": "and:" + "&".join(spec_str(x) for x in t), "kind": "and", "specs": list(t)})
    rides = [[], ["prodA"], ["kw"], ["paged"], ["prodA", "kw", "paged"], ["status", "notag"], ["cc"], ["flag", "compX"]]
    top = 6 if tier == "quick" else 8
    for n in range(1, top + 1):
        for axis in ("id", "chart"):
            for ride in rides:
                if n > 4 and len(ride) > 1 and tier == "quick":
                    continue
                obs.append({"oid": f"batch:{axis}|n={n}|ride={','.join(ride)}", "kind": "batch", "axis": axis, "n": n, "ride": ride, "max_paths": 200000, "max_s": 600})
    UNIVERSE[tier] = {"obligations": len(obs)}
    return obs
