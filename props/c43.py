"""C43 - config section inheritance resolves to the nearest definition."""
import itertools

import z3

from pkgcore.config import basics, central, errors
from pkgcore.config.hint import configurable
from sx import core
from sx.runner import Harness

ID = "C43"
MANIFEST = {
    "technique": "bounded model checking with solver-decided choice (SX engine): the inherit list of every section, whether it sets the probed key, the presence and content of a redefinition in a second (and a later added third) config source are symbolic selectors; the engine forks over every feasible configuration, runs the real ConfigManager.collapse_named_section (collapse_section, _get_inherited_sections, _ConfigStack.render_value, add_config_source/reload) and compares the resolved value or the error kind with a breadth-first reference",
    "level_text": "Bounded model checking, exhaustive within the bound: 3 sections in the first source with inherit lists from a 7-entry menu (chains, branching, self-inherit, missing target, cycles), a second source redefining one of them, and optionally a third source added after a first collapse: the value of the probed key is the one from the section itself, else from the first section in breadth-first inheritance order that sets it; self-inherit reaches the next-older definition of the same name; cycles and missing targets raise ConfigurationError; after add_config_source the result equals that of a manager built with all sources up front. Selector-only.",
    "level_note": "selector-only harness (labelled as such). Trusted: the breadth-first reference; a name reached twice along different paths is treated as the implementation does (reported as recursive).",
}
META = {
    "modules": ["pkgcore.config.central", "pkgcore.config.basics"],
    "functions": ["central.ConfigManager._get_inherited_sections", "central.ConfigManager.collapse_section/collapse_named_section", "central._ConfigStack.render_value", "central.ConfigManager.add_config_source/reload/_integrate_config_source"],
    "bounds": {"quick": "sections a,b,c with inherit lists from {[],[b],[c],[b,c],[c,b],[self],[zz]} x key set/unset, second source redefining b or c, optional third source added after the first collapse", "thorough": "plus a fourth section d and lists [d],[b,d]"},
    "outside": ["more than 4 sections / 3 sources", "typed rendering of values other than str and list", "autoload sections"],
    "assumptions": [],
    "selector_only": True,
}


@configurable(types={"k": "str"})
def thing(k=None):
    return ("thing", k)


def menu(tier):
    m = [[], ["b"], ["c"], ["b", "c"], ["c", "b"], ["SELF"], ["zz"], ["a"]]
    if tier != "quick":
        m += [["d"], ["b", "d"]]
    return m


def build_sources(cfg, names):
    """cfg: {"s1": {name: (inh_idx, setk)}, "s2": {name: (inh_idx, setk)} , ...} -> list of dicts of sections"""
    out = []
    for si, key in enumerate(("s1", "s2", "s3")):
        if key not in cfg or cfg[key] is None:
            continue
        d = {}
        for name, (inh, setk) in cfg[key].items():
            sec = {}
            inh = [name if x == "SELF" else x for x in inh]
            if inh:
                sec["inherit"] = inh
            if setk:
                sec["k"] = f"{key}.{name}"
            if name == "a" and key == "s1":
                sec["class"] = thing
            d[name] = basics.HardCodedConfigSection(sec)
        out.append(d)
    return out


def reference(cfg):
    """breadth-first resolution; sources listed first are the most specific definition of a name"""
    order = [k for k in ("s3", "s2", "s1") if cfg.get(k)]  # later added sources override
    stacks = {}
    for key in order:
        for name, v in cfg[key].items():
            stacks.setdefault(name, []).append((key, v))
    if "a" not in stacks:
        return "error"
    slist = [("a", stacks["a"])]
    seen = {"a"}
    i = 0
    while i < len(slist):
        cur, stack = slist[i]
        i += 1
        src, (inh, setk) = stack[0]
        for x in inh:
            x = cur if x == "SELF" else x
            if x == cur:
                if len(stack) == 1:
                    return "error"
                slist.append((x, stack[1:]))
            else:
                if x in seen:
                    return "error"
                seen.add(x)
                if x not in stacks:
                    return "error"
                slist.append((x, stacks[x]))
    has_class = any(src == "s1" and cur == "a" for cur, stack in slist for src, _ in [stack[0]])
    if not has_class:
        return "error"
    for cur, stack in slist:
        src, (inh, setk) = stack[0]
        if setk:
            return f"{src}.{cur}"
    return None


class ConfigHarness(Harness):
    def setup(self, eng):
        ob = self.ob
        m = len(menu(ob["tier"]))
        inp = {"s1": {n: {"inh": eng.int(f"s1_{n}_inh", 0, m - 1) if n != "a" else 0, "k": eng.bool(f"s1_{n}_k")} for n in ob["names"]}}
        # redefinitions: inherit from {[], [c], [SELF]} (menu indexes 0, 2, 5); the late third source sets the key or not
        inp["s2"] = {"inh": eng.int("s2_inh", 0, 2), "k": eng.bool("s2_k"), "present": eng.bool("s2_present")}
        inp["s3"] = {"inh": 0, "k": eng.bool("s3_k"), "present": eng.bool("s3_present")}
        eng.assume(z3.Implies(z3.Not(inp["s2"]["present"].e), z3.And(inp["s2"]["inh"].e == 0, z3.Not(inp["s2"]["k"].e))))
        eng.assume(z3.Implies(z3.Not(inp["s3"]["present"].e), z3.Not(inp["s3"]["k"].e)))
        return inp

    def body(self, inp):
        ob = self.ob
        c = core.fix(inp) if core.ENG is not None else inp
        M = menu(ob["tier"])
        cfg = {"s1": {n: (M[v["inh"]], v["k"]) for n, v in c["s1"].items()}}
        cfg["s1"]["a"] = (M[ob["a_inh"]], cfg["s1"]["a"][1])
        if c["s2"]["present"]:
            cfg["s2"] = {ob["redef"]: (M[(0, 2, 5)[c["s2"]["inh"]]], c["s2"]["k"])}
        if c["s3"]["present"]:
            cfg["s3"] = {ob["redef3"]: (M[c["s3"]["inh"]], c["s3"]["k"])}

        def collapse(mgr):
            try:
                return mgr.collapse_named_section("a").config.get("k")
            except errors.ConfigurationError:
                return "error"

        first = {k: v for k, v in cfg.items() if k != "s3"}
        srcs = build_sources(first, ob["names"])
        # sources are integrated in order; a later source overrides an earlier one for the same name
        mgr = central.ConfigManager(srcs)
        r1 = collapse(mgr)
        out = {"cfg": {k: {n: [list(v[0]), v[1]] for n, v in d.items()} for k, d in cfg.items()}, "first": r1, "want_first": reference(first)}
        if "s3" in cfg:
            extra = build_sources({"s3": cfg["s3"]}, ob["names"])[0]
            try:
                mgr.add_config_source(extra)
                out["after_add"] = collapse(mgr)
            except errors.ConfigurationError:
                out["after_add"] = "refused"
            out["want_after_add"] = reference(cfg)
        return out

    def prop(self, inp, obs):
        if obs["first"] != obs["want_first"]:
            return False
        if "after_add" in obs and obs["after_add"] != "refused":
            return obs["after_add"] == obs["want_after_add"]
        return True


def harness(ob):
    return ConfigHarness(ob)


UNIVERSE = {}


def obligations(tier, seed):
    obs = []
    names = ["a", "b", "c"] if tier == "quick" else ["a", "b", "c", "d"]
    M = menu(tier)
    for ai in range(len(M)):
        for redef, redef3 in (("b", "c"), ("c", "b"), ("a", "b")):
            obs.append({"oid": f"a.inherit={M[ai]}|s2 redefines {redef}|s3 redefines {redef3}", "tier": tier, "names": names, "a_inh": ai, "redef": redef, "redef3": redef3, "max_paths": 3000000, "max_s": 2400})
    UNIVERSE[tier] = {"configs": len(obs)}
    return obs
