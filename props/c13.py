"""C13 - package visibility follows mask, keyword and license configuration."""
import logging
import os
import shutil
import tempfile
from types import SimpleNamespace

from pkgcore.ebuild import domain as domain_mod
from pkgcore.ebuild import profiles, repo_objs
from pkgcore.ebuild.atom import atom
from pkgcore.ebuild.conditionals import DepSet
from pkgcore.restrictions import boolean
from pkgcore.test.misc import FakePkg, FakeRepo
from pkgcore.util.parserestrict import parse_match
from sx import core
from sx.runner import Harness

ID = "C13"
MANIFEST = {
    "technique": "bounded model checking with solver-decided choice (SX engine): the repository masks, the package.mask / package.unmask lines of a two-level profile (with -atom lifts) and of the user configuration, ACCEPT_KEYWORDS, the package.accept_keywords lines of the user and the profile, profile package.keywords, ACCEPT_LICENSE and the package.license lines are symbolic selectors; the engine forks over every feasible configuration, writes it to a scratch profile/config tree, builds the real domain over a real OnDiskProfile and compares domain.filter_repo(repo) (generate_filter, _make_keywords_filter/_apply_keywords_filter, _apply_license_filter, collapsed_restrict_to_data, incremental_expansion_license, filtered.tree) with a reference evaluator of the statement for every package",
    "level_text": "Bounded model checking, exhaustive within the bound: 864 mask configurations (3 repository x 3 base-profile x 4 child-profile x 4 user mask sets, 2 profile x 3 user unmask sets), 1536 keyword configurations (6 ACCEPT_KEYWORDS x 8x8 user package.accept_keywords lines incl. empty, **, *, ~*, globs x profile accept_keywords x profile package.keywords) over packages carrying every keyword shape, 288 license configurations (8 ACCEPT_LICENSE incl. @group, -@group, *, -* x 6x6 package.license lines) over single / any-of / all-of / nested LICENSE, and 432 combined configurations: the set of visible packages equals the reference evaluator's. Selector-only.",
    "level_note": "selector-only harness (labelled as such). Packages are pkgcore.test.misc.FakePkg objects with keywords/license set; license groups come from a real Licenses object over a scratch repository directory (nested group). Trusted: the reference evaluator (60 lines).",
}
META = {
    "modules": ["pkgcore.ebuild.domain", "pkgcore.ebuild.misc", "pkgcore.repository.filtered", "pkgcore.ebuild.profiles"],
    "functions": ["domain.filter_repo", "domain._pkg_filters", "domain._make_keywords_filter", "domain._apply_keywords_filter", "domain._apply_license_filter", "domain.generate_filter", "misc.collapsed_restrict_to_data.pull_data", "misc.non_incremental_collapsed_restrict_to_data.pull_data", "misc.incremental_expansion_license", "filtered.tree.itermatch", "profiles.OnDiskProfile (masks/unmasks/accept_keywords/keywords)"],
    "bounds": {"quick": "menus as in level_text, 7 packages", "thorough": "same (the space is swept completely in both tiers)"},
    "outside": ["USE-conditional LICENSE", "negated keyword tokens inside package.accept_keywords lines", "package.env overrides", "more than two profile levels"],
    "assumptions": [],
    "selector_only": True,
}

logging.getLogger("pkgcore").setLevel(logging.CRITICAL)

# cpv, KEYWORDS, LICENSE
PKGS = [
    ("app/a-1", ("amd64",), "A"), ("app/a-2", ("~amd64",), "|| ( A B )"), ("app/b-1", ("x86", "~amd64"), "A B"), ("lib/c-1", ("~x86",), "|| ( ( A C ) B )"),
    ("lib/d-1", (), "D"), ("lib/e-1", ("-*", "x86"), "|| ( D C )"), ("app/a-3", ("-amd64", "~x86"), "C"),
]
REPO_MASKS = [[], ["app/a"], ["=app/a-2", "lib/c"]]
PROF_BASE_MASK = [[], ["app/b"], [">=app/a-2"]]
PROF_CHILD_MASK = [[], ["-app/a"], ["-app/b", "=app/a-1"], ["->=app/a-2", "-lib/c"]]
USER_MASK = [[], ["app/a"], ["<app/a-2"], ["app/*"]]
PROF_UNMASK = [[], ["app/b"]]
USER_UNMASK = [[], ["=app/a-2"], ["app/a", "lib/c"]]
ACCEPT_KW = ["amd64", "~amd64", "amd64 ~x86", "**", "*", "~*"]
KW_LINES = [None, "app/a", "app/a **", "=app/a-2 ~x86", "app/* ~*", "*/* *", "app/b x86 ~x86", "lib/c"]
PROF_AKW = [None, "app/b ~x86"]
PROF_KW = [None, "lib/d amd64"]
GROUPS = {"g": ("A", "C"), "h": ("B", "A", "C")}
ACCEPT_LIC = ["A", "*", "* -@g", "-* @g", "@g -A", "* -B", "A B C D -*", "@h D"]
LIC_LINES = [None, "app/a B", "=app/a-2 -* C", "app/* -A", "lib/c @g", "app/b *"]


def write(path, lines):
    os.makedirs(os.path.dirname(path), exist_ok=True)
    with open(path, "w") as f:
        f.write("".join(l + "\n" for l in lines))


# ---------------------------------------------------------------- the reference evaluator of the statement
def dnf(text):
    """LICENSE alternatives: list of sets"""
    toks = text.split()

    def parse(i, any_of):
        items = []
        while i < len(toks) and toks[i] != ")":
            if toks[i] == "||":
                sub, i = parse(i + 2, True)
                items.append(sub)
                i += 1
            elif toks[i] == "(":
                sub, i = parse(i + 1, False)
                items.append(sub)
                i += 1
            else:
                items.append([{toks[i]}])
                i += 1
        if any_of:
            return [s for it in items for s in it], i
        out = [set()]
        for it in items:
            out = [a | b for a in out for b in it]
        return out, i

    return parse(0, False)[0]


def ref_visible(cfg, cpv, keywords, lic):
    p = FakePkg(cpv)
    m = lambda a: parse_match(a).match(p)
    masks = list(cfg["repo_masks"])
    for level in cfg["profile_masks"]:
        masks = [x for x in masks if x not in [n[1:] for n in level if n.startswith("-")]]
        masks += [n for n in level if not n.startswith("-")]
    masks += cfg["user_masks"]
    unmasks = cfg["profile_unmasks"] + cfg["user_unmasks"]
    if any(m(x) for x in masks) and not any(m(x) for x in unmasks):
        return False
    # keywords
    acc = set(cfg["accept_keywords"].split()) | {"amd64"}
    acc |= {k.lstrip("~") for k in list(acc) if k.startswith("~")}
    stable_system = "~amd64" not in acc
    for line in cfg["kw_lines"] + cfg["profile_akw"]:
        spec, *toks = line.split()
        if m(spec):
            if toks:
                acc |= set(toks)
            elif stable_system:
                acc.add("~amd64")
    kws = list(keywords)
    for line in cfg["profile_keywords"]:
        spec, *toks = line.split()
        if m(spec):
            kws += toks
    ok = "**" in acc or ("*" in acc and any(k[0] not in "-~" for k in kws)) or ("~*" in acc and any(k[0] == "~" for k in kws)) or any(k in acc for k in kws)
    if not ok:
        return False
    # licenses
    toks = cfg["accept_license"].split()
    for line in cfg["lic_lines"]:
        spec, *t = line.split()
        if m(spec):
            toks += t
    for alt in dnf(lic):
        accepted = set()
        for t in toks:
            if t == "-*":
                accepted.clear()
            elif t == "*":
                accepted |= alt
            elif t.startswith("-@"):
                accepted -= set(GROUPS.get(t[2:], ()))
            elif t.startswith("@"):
                accepted |= set(GROUPS.get(t[1:], ()))
            elif t.startswith("-"):
                accepted.discard(t[1:])
            else:
                accepted.add(t)
        if alt <= accepted:
            return True
    return False


class VisibilityHarness(Harness):
    def setup(self, eng):
        f = self.ob["facet"]
        i = lambda n, menu: eng.int(n, 0, len(menu) - 1)
        if f == "masks":
            return {"repo_masks": i("repo_masks", REPO_MASKS), "prof_base_mask": self.ob["pbm"], "prof_child_mask": i("profile_child_mask", PROF_CHILD_MASK), "user_mask": i("user_mask", USER_MASK), "prof_unmask": i("profile_unmask", PROF_UNMASK), "user_unmask": i("user_unmask", USER_UNMASK)}
        if f == "keywords":
            return {"accept_kw": self.ob["akw"], "kw1": i("kw_line1", KW_LINES), "kw2": i("kw_line2", KW_LINES), "prof_akw": i("profile_accept_keywords", PROF_AKW), "prof_kw": i("profile_keywords", PROF_KW)}
        if f == "licenses":
            return {"accept_lic": i("accept_license", ACCEPT_LIC), "lic1": i("lic_line1", LIC_LINES), "lic2": i("lic_line2", LIC_LINES)}
        return {"repo_masks": eng.int("repo_masks", 0, 1), "user_unmask": eng.int("user_unmask", 0, 1), "accept_kw": eng.int("accept_kw", 0, 2), "kw1": eng.int("kw_line1", 0, 3), "accept_lic": self.ob["alic"], "lic1": eng.int("lic_line1", 0, 2)}

    def body(self, inp):
        c = core.fix(inp) if core.ENG is not None else inp
        g = lambda k, d=0: c.get(k, d)
        cfg = {
            "repo_masks": REPO_MASKS[g("repo_masks")], "profile_masks": [PROF_BASE_MASK[g("prof_base_mask")], PROF_CHILD_MASK[g("prof_child_mask")]], "user_masks": USER_MASK[g("user_mask")],
            "profile_unmasks": PROF_UNMASK[g("prof_unmask")], "user_unmasks": USER_UNMASK[g("user_unmask")],
            # facets other than the keyword one accept everything keyworded / licensed unless they say otherwise
            "accept_keywords": ACCEPT_KW[g("accept_kw")] if "accept_kw" in c else "**", "kw_lines": [KW_LINES[x] for x in (g("kw1"), g("kw2")) if KW_LINES[x]],
            "profile_akw": [x for x in [PROF_AKW[g("prof_akw")]] if x], "profile_keywords": [x for x in [PROF_KW[g("prof_kw")]] if x],
            "accept_license": ACCEPT_LIC[g("accept_lic")] if "accept_lic" in c else "*", "lic_lines": [LIC_LINES[x] for x in (g("lic1"), g("lic2")) if LIC_LINES[x]],
        }
        td = tempfile.mkdtemp(prefix="c13-")
        try:
            base = os.path.join(td, "profiles")
            write(os.path.join(base, "base", "make.defaults"), ['ARCH="amd64"'])
            write(os.path.join(base, "base", "package.mask"), cfg["profile_masks"][0])
            write(os.path.join(base, "child", "parent"), ["../base"])
            write(os.path.join(base, "child", "package.mask"), cfg["profile_masks"][1])
            write(os.path.join(base, "child", "package.unmask"), cfg["profile_unmasks"])
            write(os.path.join(base, "child", "package.accept_keywords"), cfg["profile_akw"])
            write(os.path.join(base, "base", "package.keywords"), cfg["profile_keywords"])
            conf = os.path.join(td, "conf")
            root = os.path.join(td, "root")
            os.makedirs(root)
            write(os.path.join(conf, "package.mask"), cfg["user_masks"])
            write(os.path.join(conf, "package.unmask"), cfg["user_unmasks"])
            write(os.path.join(conf, "package.accept_keywords"), cfg["kw_lines"])
            write(os.path.join(conf, "package.license"), cfg["lic_lines"])
            repodir = os.path.join(td, "repo")
            write(os.path.join(repodir, "profiles", "license_groups"), ["g A C", "h B @g"])
            for l in "ABCD":
                write(os.path.join(repodir, "licenses", l), ["text"])
            raw = FakeRepo(repo_id="fake", location=repodir, supported=True)
            dom = domain_mod.domain(profiles.OnDiskProfile(base, "child"), [SimpleNamespace(instantiate=lambda: raw, name="fake")], [], root=root, config_dir=conf, ACCEPT_KEYWORDS=cfg["accept_keywords"], ACCEPT_LICENSE=cfg["accept_license"])
            pk = []
            for cpv, kws, lic in PKGS:
                p = FakePkg(cpv, repo=raw)
                object.__setattr__(p, "keywords", tuple(kws))
                object.__setattr__(p, "license", DepSet.parse(lic, str, operators={"||": boolean.OrRestriction, "": boolean.AndRestriction}))
                pk.append(p)
            raw.pkgs = pk
            raw.pkg_masks = frozenset(atom(x) for x in cfg["repo_masks"])
            raw.licenses = repo_objs.Licenses(raw)
            # packages whose keywords come from the profile are mutated by nothing: take the names only
            got = sorted(p.cpvstr for p in dom.filter_repo(raw))
        finally:
            shutil.rmtree(td, ignore_errors=True)
        want = sorted(cpv for cpv, kws, lic in PKGS if ref_visible(cfg, cpv, kws, lic))
        # the profile's accept_keywords lines take part like the user's
        return {"cfg": cfg, "visible": got, "expected": want}

    def prop(self, inp, obs):
        return obs["visible"] == obs["expected"]


def harness(ob):
    return VisibilityHarness(ob)


UNIVERSE = {}


def obligations(tier, seed):
    obs = []
    for pbm in range(len(PROF_BASE_MASK)):
        obs.append({"oid": f"masks|profile-base-mask={PROF_BASE_MASK[pbm]}", "facet": "masks", "pbm": pbm})
    for akw in range(len(ACCEPT_KW)):
        obs.append({"oid": f"keywords|ACCEPT_KEYWORDS={ACCEPT_KW[akw]}", "facet": "keywords", "akw": akw})
    obs.append({"oid": "licenses", "facet": "licenses"})
    for alic in (0, 2, 4):
        obs.append({"oid": f"combined|ACCEPT_LICENSE={ACCEPT_LIC[alic]}", "facet": "combined", "alic": alic})
    for o in obs:
        o.update(max_paths=200000, max_s=2400)
    UNIVERSE[tier] = {"obligations": len(obs)}
    return obs
