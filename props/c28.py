"""C28 - Manifest generation is deterministic, idempotent, parseable and atomic."""
import hashlib
import os
import shutil
import tempfile

from pkgcore.ebuild import digest
from pkgcore.fetch import fetchable
from sx import core
from sx.runner import Harness
from sx.shims import patched

ID = "C28"
MANIFEST = {
    "technique": "bounded model checking with solver-decided choice (SX engine): the files of the package directory (ebuilds, files/ tree, misc files, removal of the last-sorted one), the distfile set with checksum dictionaries in different key orders, thick/thin mode, the order in which inputs are handed over and the crash point of the write are symbolic selectors; the engine forks over every feasible combination, runs the real Manifest.update / _manifest_line / parse_manifest on a real scratch directory and compares the file bytes and the parsed content with the specification",
    "level_text": "Bounded model checking, exhaustive within the bound: 6 directory shapes x 5 distfile sets x thick/thin x 2 input orders x 4 crash points, each followed by a second update after an edit that shrinks or keeps the content: the Manifest parses back to the sizes and checksums of the covered files and distfiles, its bytes do not depend on the order of the inputs, regenerating an up-to-date Manifest returns False and leaves the file untouched, a stale entry never survives regeneration, and a write interrupted at any point leaves the complete old or complete new file. Selector-only; real code on real files.",
    "level_note": "selector-only harness (labelled as such). Crash = exception raised by the file object handed out by open() inside pkgcore.ebuild.digest at the chosen point (after opening for writing, after half of the data), observed at that instant.",
}
META = {
    "modules": ["pkgcore.ebuild.digest"],
    "functions": ["digest.Manifest.update", "digest._manifest_line", "digest.parse_manifest", "fs.livefs.iter_scan (dependency)"],
    "bounds": {"quick": "6 directory shapes, 5 distfile sets, thick and thin, 2 orders, crash points {none, after-open, mid-write, after-write}", "thorough": "same (the space is small and swept completely in both tiers)"},
    "outside": ["GPG-signed manifests", "directories with more than 5 files", "power loss below the system-call level"],
    "assumptions": [],
    "selector_only": True,
}

DIRS = [
    {"p-1.ebuild": "E1"}, {"p-1.ebuild": "E1", "p-2.ebuild": "E2", "metadata.xml": "<x/>"}, {"p-1.ebuild": "E1", "files/fix.patch": "PATCH", "files/sub/a.txt": "A"},
    {"p-1.ebuild": "", "ChangeLog": "cl", "zz.misc": "last"}, {"p-1.ebuild": "E1", "files/z-last.patch": "zz", "files/a.patch": "aa"}, {"a-0.ebuild": "x", "b-0.ebuild": "y", "files/f": ""},
]
DISTS = [
    [], [("p-1.tar.gz", {"size": 10, "sha512": 5, "blake2b": 6})], [("p-1.tar.gz", {"blake2b": 6, "sha512": 5, "size": 10}), ("a.patch.xz", {"size": 0, "sha256": 1})],
    [("zlast.tar", {"size": 7, "sha1": 9}), ("first.tar", {"sha1": 3, "size": 1})], [("only-size.bin", {"size": 123})],
]
CRASH = ["none", "after-open", "mid-write", "after-write"]


def chk(data, types=("size", "blake2b", "sha512")):
    out = {"size": len(data)}
    for t in types:
        if t != "size":
            out[t] = int(getattr(hashlib, t)(data).hexdigest(), 16)
    return out


class Crash(BaseException):
    pass


class ManifestHarness(Harness):
    def setup(self, eng):
        return {"dir": eng.int("dir", 0, len(DIRS) - 1), "dist": eng.int("dist", 0, len(DISTS) - 1), "rev": eng.bool("reversed_inputs"), "crash": eng.int("crash", 0, len(CRASH) - 1), "edit": eng.int("edit", 0, 2)}

    def body(self, inp):
        c = core.fix(inp) if core.ENG is not None else inp
        thin = self.ob["thin"]
        crash = CRASH[c["crash"]]
        td = tempfile.mkdtemp(prefix="c28-")
        try:
            pdir = os.path.join(td, "cat", "p")
            os.makedirs(os.path.join(pdir, "files", "sub"))
            files = dict(DIRS[c["dir"]])
            for rel, content in files.items():
                with open(os.path.join(pdir, rel), "w") as f:
                    f.write(content)
            dists = list(DISTS[c["dist"]])
            mpath = os.path.join(pdir, "Manifest")

            def fetchables(ds, rev):
                fl = [fetchable(n, chksums=dict(reversed(list(ch.items())) if rev else ch.items())) for n, ch in ds]
                return list(reversed(fl)) if rev else fl

            def expected(files, ds):
                lines = []
                if not thin:
                    aux = sorted((r[6:], v) for r, v in files.items() if r.startswith("files/"))
                    lines += [("AUX", n, chk(v.encode())) for n, v in aux]
                lines += [("DIST", n, ch) for n, ch in sorted(ds)]
                if not thin:
                    lines += [("EBUILD", n, chk(v.encode())) for n, v in sorted(files.items()) if n.endswith(".ebuild") and "/" not in n]
                    lines += [("MISC", n, chk(v.encode())) for n, v in sorted(files.items()) if not n.endswith(".ebuild") and "/" not in n]
                return lines

            def parsed(path):
                try:
                    d, a, e, m = digest.parse_manifest(path)
                except Exception as ex:
                    return "exception " + type(ex).__name__
                out = []
                for t, dd in (("AUX", a), ("DIST", d), ("EBUILD", e), ("MISC", m)):
                    out += [(t, n, dict(v)) for n, v in sorted(dd.items())]
                return out

            out = {"thin": thin, "crash": crash}
            m = digest.Manifest(mpath, thin=thin)
            r1 = m.update(fetchables(dists, False), chfs=("size", "blake2b", "sha512"))
            text1 = open(mpath).read() if os.path.exists(mpath) else None
            out["first_written"] = r1
            out["parse1_ok"] = (parsed(mpath) if text1 is not None else []) == [(t, n, dict(ch)) for t, n, ch in expected(files, dists)]
            # same inputs, other order: same bytes, nothing written
            st1 = os.stat(mpath).st_mtime_ns if text1 is not None else None
            r2 = digest.Manifest(mpath, thin=thin).update(fetchables(dists, c["rev"]), chfs=("sha512", "blake2b", "size") if c["rev"] else ("size", "blake2b", "sha512"))
            text2 = open(mpath).read() if os.path.exists(mpath) else None
            out["idempotent"] = (r2 is False) and text2 == text1 and (st1 is None or os.stat(mpath).st_mtime_ns == st1)
            # edit: 0 nothing, 1 remove the last-sorted file / distfile, 2 change a file
            files2, dists2 = dict(files), list(dists)
            if c["edit"] == 1:
                if dists2:
                    dists2 = sorted(dists2)[:-1]
                cand = sorted(k for k in files2 if not k.endswith(".ebuild"))
                if cand:
                    os.unlink(os.path.join(pdir, cand[-1]))
                    del files2[cand[-1]]
            elif c["edit"] == 2:
                k = sorted(files2)[0]
                files2[k] = files2[k] + "more"
                with open(os.path.join(pdir, k), "w") as f:
                    f.write(files2[k])
            want3 = [(t, n, dict(ch)) for t, n, ch in expected(files2, dists2)]
            instant = {}
            real_open = open

            class FaultyFile:
                def __init__(self, f):
                    self.f = f

                def write(self, data):
                    if crash == "mid-write":
                        self.f.write(data[: len(data) // 2])
                        self.f.flush()
                        die()
                    r = self.f.write(data)
                    if crash == "after-write":
                        self.f.flush()
                        die()
                    return r

                def __getattr__(self, n):
                    return getattr(self.f, n)

                def __enter__(self):
                    return self

                def __exit__(self, *a):
                    return self.f.__exit__(*a)

            def die():
                instant["text"] = real_open(mpath).read() if os.path.exists(mpath) else None
                raise Crash()

            def my_open(path, mode="r", *a, **k):
                f = real_open(path, mode, *a, **k)
                if "w" in mode and os.path.basename(path).startswith(("Manifest", ".")) or ("w" in mode and "Manifest" in os.path.basename(path)):
                    if crash == "after-open":
                        die()
                    return FaultyFile(f)
                return f

            crashed = False
            binds = [(digest, "open", my_open)] if crash != "none" else []
            if crash != "none" and hasattr(digest, "AtomicWriteFile"):
                real_awf = digest.AtomicWriteFile

                class FaultyAWF(real_awf):
                    def __init__(self, *a, **k):
                        super().__init__(*a, **k)
                        if crash == "after-open":
                            die()

                    def write(self, data):
                        w = real_awf.__getattr__(self, "write")
                        if crash == "mid-write":
                            w(data[: len(data) // 2])
                            real_awf.__getattr__(self, "flush")()
                            die()
                        r = w(data)
                        if crash == "after-write":
                            real_awf.__getattr__(self, "flush")()
                            die()
                        return r

                binds.append((digest, "AtomicWriteFile", FaultyAWF))
            with patched(*binds):
                try:
                    r3 = digest.Manifest(mpath, thin=thin).update(fetchables(dists2, False), chfs=("size", "blake2b", "sha512"))
                except Crash:
                    crashed = True
                    r3 = None
            text3 = open(mpath).read() if os.path.exists(mpath) else None
            out["crashed"] = crashed
            if crashed:
                seen = instant.get("text")
                # the complete old or the complete new file
                new_text = None
                shutil.rmtree(os.path.join(td, "ref"), ignore_errors=True)
                out["old_or_new"] = seen == text2 or (seen is not None and parsed_text(seen, td) == want3)
            else:
                out["old_or_new"] = True
                must_exist = bool(want3) or text2 is not None
                # thin manifests are not needed without distfiles: update() then leaves whatever is there alone
                out["third_ok"] = (thin and not dists2) or (parsed(mpath) if text3 is not None else []) == want3
                out["third_written"] = r3
                out["third_changed"] = text3 != text2
            return out
        finally:
            shutil.rmtree(td, ignore_errors=True)

    def prop(self, inp, obs):
        ok = obs["parse1_ok"] and obs["idempotent"] and obs["old_or_new"]
        if not obs["crashed"]:
            ok = ok and obs["third_ok"] and (bool(obs["third_written"]) == obs["third_changed"])
        return ok


def parsed_text(text, td):
    p = os.path.join(td, "seen-manifest")
    with open(p, "w") as f:
        f.write(text)
    try:
        d, a, e, m = digest.parse_manifest(p)
    except Exception as ex:
        return "exception " + type(ex).__name__
    out = []
    for t, dd in (("AUX", a), ("DIST", d), ("EBUILD", e), ("MISC", m)):
        out += [(t, n, dict(v)) for n, v in sorted(dd.items())]
    return out


def harness(ob):
    return ManifestHarness(ob)


UNIVERSE = {}


def obligations(tier, seed):
    obs = [{"oid": f"thin={t}", "thin": t, "max_paths": 100000, "max_s": 1800} for t in (False, True)]
    UNIVERSE[tier] = {"combinations": 2 * 6 * 5 * 2 * 4 * 3}
    return obs
