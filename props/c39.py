"""C39 - bug update list changes compose like applying them in sequence; wire payload = fields set."""
import datetime
import itertools

import z3

from pkgcore.bugzilla import changes
from pkgcore.bugzilla.changes import BugUpdate, FlagChange, ListChange, NewComment
from pkgcore.bugzilla.enums import FlagStatus, Resolution, Status
from pkgcore.bugzilla.errors import BugzillaUsageError
from sx import core
from sx.core import SymBool, SymInt
from sx.runner import Harness

ID = "C39"
MANIFEST = {
    "technique": "symbolic execution (SX proxies + z3) of the real ListChange.__post_init__/__or__/to_wire and BugUpdate.__post_init__/to_wire: the values inside the add/remove/set tuples are symbolic integers over a 3-value alphabet, the initial list is a symbolic set; 'apply(a|b, L) == apply(b, apply(a, L)) or the combination raises' is asserted per value on every path against a reference Bugzilla list-update model; for BugUpdate the presence of every optional field is a symbolic Bool and the wire keys are compared with the fields set",
    "level_text": "Bounded symbolic model checking: for every pair of change shapes (add/remove tuples of length <=2 each, or a set of length <=2, incl. the empty set) the solver proves for all value assignments and all initial lists over a 3-value alphabet that the combined change applied to the list equals applying the two in sequence (or the combination is refused), in both the in-memory form and the rendered wire form; for bug updates, that the payload keys are exactly the fields set for all 2^n presence combinations of the grouped fields.",
    "level_note": "Trusted: SX engine; the reference list-update model (set semantics: replace, else remove then add). frozenset() of symbolic values is handled by the engine's concretising hash (forks over the 3 feasible values). Counterexamples are replayed natively.",
}
META = {
    "modules": ["pkgcore.bugzilla.changes"],
    "functions": ["changes.ListChange.__post_init__/__or__/__bool__/to_wire/adding/removing/setting", "changes.BugUpdate.__post_init__/to_wire", "changes.FlagChange.to_wire", "changes.NewComment.to_wire"],
    "bounds": {"quick": "change shapes: (len add, len remove) in {0,1,2}^2 or set of len 0..2, values symbolic in {0,1,2}; initial list: symbolic subset of {0,1,2}; all 12x12 shape pairs. BugUpdate: 13 presence Bools in 3 groups + status/resolution menus", "thorough": "same with tuple lengths up to 3 over a 4-value alphabet"},
    "outside": ["ordering and duplicates inside lists (Bugzilla list fields are sets)", "NewBug payloads", "value alphabets > 4"],
    "assumptions": ["reference model: set(x) replaces the list; otherwise removals are applied before additions, as Bugzilla does"],
    "selector_only": False,
}


def _member(t, v):
    return core._z3or(core.lift(x) == v for x in t)


class ComposeHarness(Harness):
    def shims(self):
        from sx.shims import sym_str

        return [(changes, "str", sym_str)]

    def setup(self, eng):
        ob = self.ob
        A = ob["alpha"]
        inp = {"L": [eng.bool(f"L{v}") for v in range(A)]}
        for n in ("a", "b"):
            sh = ob[n]
            inp[n] = {k: [eng.int(f"{n}{k}{i}", 0, A - 1) for i in range(sh[k])] if sh[k] is not None else None for k in ("add", "remove", "set")}
        return inp

    def _mk(self, d):
        if d["set"] is not None:
            return ListChange.setting(*d["set"])
        return ListChange(add=tuple(d["add"]), remove=tuple(d["remove"]))

    def body(self, inp):
        try:
            a, b = self._mk(inp["a"]), self._mk(inp["b"])
        except BugzillaUsageError:
            return {"invalid": True}
        try:
            c = a | b
        except BugzillaUsageError:
            return {"invalid": False, "refused": True}
        w = c.to_wire()
        return {
            "invalid": False, "refused": False,
            "add": list(c.add), "remove": list(c.remove), "replace": None if c.replace is None else list(c.replace),
            "wire_keys": sorted(w), "wire": {k: list(v) for k, v in w.items()}, "truthy": bool(c), "truthy_ab": [bool(a), bool(b)],
        }

    def _apply(self, d, S):
        """reference: membership terms after applying the change described by tuples d to membership list S"""
        out = []
        for v in range(len(S)):
            if d["set"] is not None:
                out.append(_member(d["set"], v))
            else:
                out.append(z3.Or(z3.And(S[v], z3.Not(_member(d["remove"], v))), _member(d["add"], v)))
        return out

    def prop(self, inp, obs):
        if obs.get("invalid") or obs.get("refused"):
            return True
        S0 = [core.unwrap_bool(x) for x in inp["L"]]
        seq = self._apply(inp["b"], self._apply(inp["a"], S0))
        comb = self._apply({"add": obs["add"], "remove": obs["remove"], "set": obs["replace"]}, S0)
        conds = [x == y for x, y in zip(seq, comb)]
        # the wire form says the same as the object
        w = obs["wire"]
        if obs["replace"] is not None:
            conds.append(z3.BoolVal(obs["wire_keys"] == ["set"] and len(w["set"]) == len(obs["replace"])))
        else:
            want = sorted(k for k in ("add", "remove") if obs[k])
            conds.append(z3.BoolVal(obs["wire_keys"] == want))
        return z3.And(conds)


FIELDS_SCALAR = ["summary", "assigned_to", "whiteboard", "deadline"]
FIELDS_LIST = ["cc", "keywords", "blocks", "depends_on", "see_also", "groups"]
FIELDS_OTHER = ["flags", "comment", "runtime_testing_required"]
WIRE_NAME = {"runtime_testing_required": "cf_runtime_testing_required", "package_list": "cf_stabilisation_atoms"}


class WireHarness(Harness):
    def setup(self, eng):
        return {"has": {f: eng.bool("has_" + f) for f in self.ob["fields"]}}

    def body(self, inp):
        from pkgcore.bugzilla.enums import RuntimeTesting

        ob = self.ob
        kw = {}
        vals = {
            "summary": "s", "assigned_to": "a@b", "whiteboard": "", "deadline": datetime.date(2030, 1, 2),
            "flags": (FlagChange("sanity-check", FlagStatus.GRANTED),), "comment": NewComment("hi"), "runtime_testing_required": list(RuntimeTesting)[0],
        }
        lc = {"cc": ListChange.adding("x"), "keywords": ListChange.removing("K"), "blocks": ListChange.setting(), "depends_on": ListChange.setting(5), "see_also": ListChange(add=("u",), remove=("v",)), "groups": ListChange.adding("g")}
        want = ["ids"]
        for f, h in inp["has"].items():
            if h:
                kw[f] = lc[f] if f in lc else vals[f]
                want.append(WIRE_NAME.get(f, f))
        st = ob["status"]
        if st:
            kw["status"] = getattr(Status, st[0])
            want.append("status")
            if st[1]:
                kw["resolution"] = getattr(Resolution, st[1])
                want.append("resolution")
                if st[1] == "DUPLICATE":
                    kw["dupe_of"] = 7
                    want.append("dupe_of")
        try:
            u = BugUpdate(**kw)
        except BugzillaUsageError:
            return {"invalid": True}
        w = u.to_wire([1, 2])
        return {"invalid": False, "keys": sorted(w), "want": sorted(want), "truthy": bool(u), "nonempty": len(want) > 1}

    def prop(self, inp, obs):
        if obs["invalid"]:
            return True
        return obs["keys"] == obs["want"]


def harness(ob):
    return WireHarness(ob) if ob["kind"] == "wire" else ComposeHarness(ob)


UNIVERSE = {}


def obligations(tier, seed):
    obs = []
    top = 2 if tier == "quick" else 3
    alpha = 3 if tier == "quick" else 4
    shapes = [{"add": a, "remove": r, "set": None} for a in range(top + 1) for r in range(top + 1)] + [{"add": 0, "remove": 0, "set": s} for s in range(top + 1)]

    def name(s):
        return f"set{s['set']}" if s["set"] is not None else f"add{s['add']}rem{s['remove']}"

    for a, b in itertools.product(shapes, repeat=2):
        obs.append({"oid": f"compose:{name(a)}|{name(b)}", "kind": "compose", "a": a, "b": b, "alpha": alpha, "max_paths": 300000, "max_s": 900})
    statuses = [None, ("CONFIRMED", None), ("RESOLVED", "FIXED"), ("RESOLVED", "DUPLICATE"), ("VERIFIED", "FIXED"), ("VERIFIED", "DUPLICATE"), ("IN_PROGRESS", None)]
    statuses = [s for s in statuses if s is None or hasattr(Status, s[0])]
    for st in statuses:
        for grp in (FIELDS_SCALAR + FIELDS_OTHER, FIELDS_LIST, FIELDS_LIST[:3] + FIELDS_SCALAR[:2] + FIELDS_OTHER[:2]):
            obs.append({"oid": f"wire:{st}|{','.join(grp)}", "kind": "wire", "status": st, "fields": grp})
    UNIVERSE[tier] = {"compose_pairs": len(shapes) ** 2, "wire": len(obs) - len(shapes) ** 2}
    return obs
