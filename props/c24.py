"""C24 - installed-package CONTENTS files round-trip."""
import os
import shutil
import tempfile

from pkgcore.fs import fs
from pkgcore.vdb import contents as vcontents
from sx import core
from sx.core import SymStr
from sx.runner import Harness
from sx.shims import patched

ID = "C24"
MANIFEST = {
    "technique": "bounded model checking with solver-decided choice (SX engine): every path and symlink target is a string of 1-3 symbolic characters over {a, space, -, >, e-acute, b}, entry types, md5 and mtime values (incl. a float mtime) are solver-chosen; the engine forks over every feasible content set, runs the real ContentsFile._write/flush and _iter_contents against a real scratch file, compares the entries read back with the entries written, and injects a fault into the n-th write of the atomic writer to observe that the previous file survives",
    "level_text": "Bounded model checking, exhaustive within the bound: content sets of 1-2 entries over {file, symlink, dir, fifo} with every path/target of length <= 3 (quick: <= 2) over a 6-symbol alphabet that includes spaces, '-', '>' and a non-ASCII letter: what is read back equals what was written (type, path, md5, integral mtime, target), and a write fault leaves the old CONTENTS byte-identical. Selector-only (the solver enumerates the strings); real code on a real file.",
    "level_note": "selector-only harness, labelled as such; known format limitations are listed as known findings with narrow regions (a symlink path containing a ' -> ' token; a dir/fifo path ending in whitespace).",
}
META = {
    "modules": ["pkgcore.vdb.contents"],
    "functions": ["vdb.contents.ContentsFile._write/flush/_iter_contents/_get_fd/add"],
    "bounds": {"quick": "1-2 entries, names of length 1-2 over {a,b,space,-,>,e-acute}, symlink targets of length 1-3, mtime in {0, 1700000000, 1.9}, md5 in {0, 2^127+5}", "thorough": "names of length <= 3"},
    "outside": ["newlines in paths (the format is line based)", "device nodes", "more than 2 entries per set"],
    "assumptions": [],
    "selector_only": True,
}

ALPHA = "ab ->é"
TYPES = ["obj", "sym", "dir", "fif"]
MTIMES = [0, 1700000000, 1.9]
MD5S = [0, (1 << 127) + 5]


def snapshot(cs):
    out = []
    for o in sorted(cs, key=lambda x: x.location):
        e = {"loc": o.location}
        if o.is_reg:
            e.update(t="obj", md5=o.chksums["md5"], mtime=int(o.mtime))
        elif o.is_sym:
            e.update(t="sym", target=o.target, mtime=int(o.mtime))
        elif o.is_dir:
            e["t"] = "dir"
        elif o.is_fifo:
            e["t"] = "fif"
        else:
            e["t"] = "other"
        out.append(e)
    return out


class ContentsHarness(Harness):
    active = frozenset()

    def region(self, name, inp):
        self.active = set(self.active) | {name}
        return False

    def setup(self, eng):
        ob = self.ob
        inp = {"e": []}
        for i, t in enumerate(ob["types"]):
            e = {"name": SymStr([eng.char(f"n{i}_{k}", ALPHA) for k in range(ob["nlen"])])}
            if t == "sym":
                e["target"] = SymStr([eng.char(f"g{i}_{k}", ALPHA) for k in range(ob["tlen"])])
            inp["e"].append(e)
        return inp

    def _objs(self, es):
        objs = []
        for i, e in enumerate(es):
            loc = "/d%d/%s" % (i, e["name"])
            t = self.ob["types"][i]
            mt = MTIMES[(self.ob["k"] + i) % len(MTIMES)]
            if t == "obj":
                objs.append(fs.fsFile(loc, chksums={"md5": MD5S[(self.ob["k"] + i) % 2]}, mtime=mt, strict=False))
            elif t == "sym":
                objs.append(fs.fsSymlink(loc, e["target"], mtime=mt, strict=False))
            elif t == "dir":
                objs.append(fs.fsDir(loc, strict=False))
            else:
                objs.append(fs.fsFifo(loc, strict=False))
        return objs

    def body(self, inp):
        sym = core.ENG is not None
        es = core.fix(inp["e"]) if sym else inp["e"]
        fault = self.ob["fault"]
        td = tempfile.mkdtemp(prefix="c24-")
        try:
            path = os.path.join(td, "CONTENTS")
            old = "dir /old\nobj /old/f d41d8cd98f00b204e9800998ecf8427e 5\n"
            with open(path, "w") as f:
                f.write(old)
            objs = self._objs(es)
            cf = vcontents.ContentsFile(path, mutable=True, create=True)
            for o in objs:
                cf.add(o)
            written = snapshot(cf)
            binds = []
            if fault >= 0:
                real = vcontents.AtomicWriteFile
                cnt = {"n": 0}

                class Faulty(real):
                    def write(self, data):
                        if cnt["n"] == fault:
                            raise OSError(28, "No space left on device")
                        cnt["n"] += 1
                        return real.__getattr__(self, "write")(data)

                binds.append((vcontents, "AtomicWriteFile", Faulty))
            err = None
            with patched(*binds):
                try:
                    cf.flush()
                except OSError:
                    err = "OSError"
            del cf
            import gc

            gc.collect()
            text = open(path, encoding="utf8").read()
            leftovers = sorted(x for x in os.listdir(td) if x != "CONTENTS")
            if err:
                return {"faulted": True, "old_intact": text == old, "leftovers": leftovers, "written": written}
            try:
                back = snapshot(vcontents.ContentsFile(path))
            except Exception as e:
                back = "exception " + type(e).__name__
            return {"faulted": False, "written": written, "read": back, "leftovers": leftovers, "known": self._known(written)}
        finally:
            shutil.rmtree(td, ignore_errors=True)

    def _known(self, written):
        k = []
        for e in written:
            if e["t"] == "sym" and "->" in e["loc"].split(" "):
                k.append("symlink-path-with-arrow-token")
            if e["t"] in ("dir", "fif") and e["loc"] != e["loc"].strip():
                k.append("dir-path-trailing-whitespace")
        return sorted(set(k))

    def prop(self, inp, obs):
        if obs["faulted"]:
            return obs["old_intact"] and not obs["leftovers"]
        if obs["leftovers"]:
            return False
        if obs["read"] == obs["written"]:
            return True
        return bool(obs["known"]) and set(obs["known"]) <= set(self.active)


def harness(ob):
    return ContentsHarness(ob)


UNIVERSE = {}


def obligations(tier, seed):
    obs = []
    top = 2 if tier == "quick" else 3
    k = 0
    for types in [(t,) for t in TYPES] + [("sym", "obj"), ("dir", "sym"), ("obj", "fif"), ("sym", "sym")]:
        for nlen in range(1, top + 1):
            for tlen in ((1, 2, 3) if "sym" in types else (1,)):
                if len(types) == 2 and nlen + tlen > (2 if tier == "quick" else 3):
                    continue
                if nlen + tlen > top + 2:
                    continue
                for fault in (-1, 0, 1):
                    if fault >= len(types) + 0 and fault > 0:
                        continue
                    k += 1
                    obs.append({"oid": f"types={','.join(types)}|namelen={nlen}|targetlen={tlen}|fault={fault}", "types": list(types), "nlen": nlen, "tlen": tlen, "fault": fault, "k": k, "max_paths": 3000000, "max_s": 2400})
    UNIVERSE[tier] = {"shapes": len(obs)}
    return obs
