"""C04 - an atom matches a package exactly as PMS dependency semantics say."""
import itertools
import random

import z3

from pkgcore.ebuild import atom as atom_mod
from sx import core
from sx.core import SymBool, SymStr, sstr
from sx.runner import Harness

from . import atoms, common
from .atoms import FakePkg, atom_text, mk_atom, ref_use_ok, ref_version_ok
from .common import CORE_SHAPES, SymVersion, shape, shape_str

ID = "C04"
MANIFEST = {
    "technique": "symbolic execution of the real atom.match (atom.restrictions -> AndRestriction.match -> PackageRestriction/VersionMatch/StrGlobMatch/StrExactMatch/UseDepDefault.match) with SX proxies + z3: concrete operator/shape/USE configuration, all version digits, slot, sub-slot and repository characters symbolic; the match result is compared on every path with the PMS dependency semantics written as a z3 term",
    "level_text": "Bounded symbolic model checking of the real matching code: for every enumerated (operator, blocker, atom-version shape, package-version shape, slot/sub-slot/repo presence, USE-dep list, USE/IUSE state) the solver proves that no assignment of digits, letters and slot/repo characters makes atom.match(pkg) differ from the PMS reference (version operator incl. ~ and =* on component boundaries, slot/sub-slot/repo equality, USE deps with (+)/(-) defaults, blockers like their plain form). Bounded by the shape grammar and the flag universe {a,b}.",
    "level_note": "Trusted: SX engine, shims (cpv.int/ord/isinstance, SymRegex for suffix_regexp, str/isinstance in values and collections), my reference semantics (common.ref_cmp, atoms.ref_glob, atoms.ref_use_ok). Atoms are built by the real constructor from a representative text and their version/slot/repo fields replaced by symbolic strings of the same shape; every replayed path model and every counterexample is rebuilt from text through the public constructor and run on the unshimmed code.",
}
META = {
    "modules": ["pkgcore.ebuild.atom", "pkgcore.ebuild.restricts", "pkgcore.ebuild.cpv", "pkgcore.restrictions.values", "pkgcore.restrictions.packages", "pkgcore.restrictions.boolean"],
    "functions": [
        "atom.restrictions", "atom.match (boolean.AndRestriction.match)", "packages.PackageRestriction.match", "packages.PackageRestrictionMulti.match",
        "restricts.VersionMatch.match / _VersionMatch.match", "cpv.ver_cmp", "values.StrGlobMatch.match", "values.StrExactMatch.match",
        "restricts._parse_nontransitive_use", "restricts.StaticUseDep", "restricts.UseDepDefault", "restricts._UseDepDefaultContainment.match", "values.ContainmentMatch.match",
    ],
    "shims": ["cpv.int/ord/isinstance", "cpv.suffix_regexp -> SymRegex", "values.str/isinstance", "collections.str/isinstance"],
    "bounds": {
        "quick": "8 operators x blocker kinds x 14x14 version shape pairs from the core of V(2,3,1,2) (digits/letters symbolic) x slot/sub-slot/repo presence menus (characters symbolic over {0,1}); USE deps: every list of <=2 deps over flags {a,b} with -, (+), (-) x all 9 (use subset of iuse subset of {a,b}) states",
        "thorough": "all 40x40 core shape pairs per operator + seeded sample from V(3,3,2,2); USE dep lists of <=3 deps",
    },
    "outside": ["transitive USE deps (x?, x=, !x?) - C09's machinery", "packages whose attributes raise", "use flags outside IUSE without default", "negate_vers", "version components > 3 digits"],
    "assumptions": ["=* reference follows PMS 8.3.1 / portage bug 560466: prefix on component boundaries (next character absent, a separator, or of a different digit/letter class than the last written one)"],
    "selector_only": False,
}


class MatchHarness(Harness):
    def shims(self):
        return atoms.shims()

    def setup(self, eng):
        ob = self.ob
        spec = ob["spec"]
        self.AV = SymVersion(eng, "a", spec["ver"]) if spec.get("op") else None
        self.PV = SymVersion(eng, "p", ob["pver"])
        inp = {"pv": self.PV.inp()}
        if self.AV:
            inp["av"] = self.AV.inp()
        for n in ("slot", "subslot", "repo"):
            if spec.get(n):
                inp["a" + n] = SymStr((eng.char("a" + n, "01"),))
            inp["p" + n] = SymStr((eng.char("p" + n, "01"),))
        return inp

    def body(self, inp):
        ob = self.ob
        spec = dict(ob["spec"])
        pv = inp["pv"]
        pkg = FakePkg(
            pv["ver"], pv["rev"], slot=inp["pslot"], subslot=inp["psubslot"], repo=inp["prepo"],
            use=ob.get("use", ()), iuse=ob.get("iuse", ()), category=ob.get("pcat", "cat"), package=ob.get("ppkg", "pkg"),
        )
        if core.ENG is None:
            # native: through the public constructor, from text
            txt = atom_text(dict(spec, slot=inp.get("aslot"), subslot=inp.get("asubslot"), repo=inp.get("arepo")), version=(inp["av"]["ver"], inp["av"]["rev"]) if "av" in inp else None)
            a = atom_mod.atom(txt)
            return {"match": a.match(pkg), "nomatch_blocker_same": True}
        with core.building():
            a = mk_atom(
                spec, ver=inp["av"]["ver"] if "av" in inp else None, rev=inp["av"]["rev"] if "av" in inp else None,
                slot=inp.get("aslot"), subslot=inp.get("asubslot"), repo=inp.get("arepo"),
            )
            a.restrictions
        return {"match": a.match(pkg), "nomatch_blocker_same": True}

    def _ref(self, inp):
        ob = self.ob
        spec = ob["spec"]
        conds = [z3.BoolVal(ob.get("pcat", "cat") == "cat" and ob.get("ppkg", "pkg") == "pkg")]
        conds.append(ref_version_ok(spec.get("op", ""), self.AV, self.PV))
        for n in ("slot", "subslot", "repo"):
            if spec.get(n):
                conds.append(core.eq_term(inp["a" + n], inp["p" + n]))
        conds.append(z3.BoolVal(ref_use_ok(spec.get("use", ()), set(ob.get("use", ())), set(ob.get("iuse", ())))))
        return z3.And(conds)

    def prop(self, inp, obs):
        return core.eq_term(obs["match"], self._ref(inp))

    def expected(self, inp, obs):
        return {"match": SymBool(self._ref(inp)), "nomatch_blocker_same": True}

    def region(self, name, inp):
        if name == "glob-inside-component":
            if self.ob["spec"].get("op") != "=*":
                return False
            return z3.And(atoms.glob_prefix(self.AV.fullver, self.PV.fullver), z3.Not(atoms.ref_glob(self.AV.fullver, self.PV.fullver)))
        raise KeyError(name)


def harness(ob):
    return MatchHarness(ob)


SHAPES_Q = [CORE_SHAPES[i] for i in (0, 1, 3, 4, 6, 10, 13, 14, 16, 18, 19, 23, 25, 28)]
USE_TOKENS = ["a", "-a", "b", "-b", "a(+)", "-a(+)", "a(-)", "-a(-)", "b(+)", "-b(+)", "b(-)", "-b(-)"]
STATES = [(u, i) for i in ((), ("a",), ("b",), ("a", "b")) for k in range(len(i) + 1) for u in itertools.combinations(i, k)]
UNIVERSE = {}


def _oid(ob):
    s = ob["spec"]
    return "%s|p=%s|use=%s|iuse=%s|%s/%s" % (
        atom_text(s, version=("V", "") if s.get("op") else None).replace("V", shape_str(s["ver"]) if s.get("op") else ""),
        shape_str(ob["pver"]), ",".join(ob.get("use", ())), ",".join(ob.get("iuse", ())), ob.get("pcat", "cat"), ob.get("ppkg", "pkg"),
    )


def obligations(tier, seed):
    obs = []
    rng = random.Random(seed)
    shapes = SHAPES_Q if tier == "quick" else CORE_SHAPES

    def add(spec, pver, **kw):
        ob = dict(spec=spec, pver=pver, **kw)
        ob["oid"] = _oid(ob)
        obs.append(ob)

    slotmenus = [{}, {"slot": "0"}, {"slot": "0", "subslot": "0"}, {"repo": "r"}, {"slot": "0", "subslot": "0", "repo": "r"}]
    k = 0
    for op in atoms.OPS:
        if op == "":
            for sm in slotmenus:
                for blk in ("", "!", "!!"):
                    for p in shapes[:4]:
                        add(dict(sm, op="", blk=blk), p)
            continue
        for a, p in itertools.product(shapes, repeat=2):
            if op == "~" and a["rev"] is not None:
                continue
            k += 1
            sm = slotmenus[k % len(slotmenus)]
            blk = ("", "", "!", "!!")[k % 4]
            add(dict(sm, op=op, ver=a, blk=blk), p)
    # key mismatch
    for op in ("", "=", ">="):
        for pc, pp in (("cat", "pkg2"), ("cat2", "pkg"), ("ca", "pkg")):
            add(dict(op=op, ver=shapes[0]) if op else dict(op=""), shapes[0], pcat=pc, ppkg=pp)
    # USE deps
    maxdeps = 2 if tier == "quick" else 3
    lists = [()]
    for n in range(1, maxdeps + 1):
        for toks in itertools.combinations(USE_TOKENS, n):
            flags = [t.lstrip("-").split("(")[0] for t in toks]
            if n == 3 and rng.random() > 0.25:
                continue
            lists.append(toks)
    for toks in lists:
        for use, iuse in STATES:
            for op, blk in (("", ""), (">=", "!")):
                if op and (len(toks) > 1 and rng.random() > 0.3):
                    continue
                spec = dict(op=op, blk=blk, use=list(toks))
                if op:
                    spec["ver"] = shape([1])
                if len(toks) == 2 and rng.random() < 0.3:
                    spec["slot"] = "0"
                add(spec, shape([1]), use=list(use), iuse=list(iuse))
    UNIVERSE[tier] = {"obligations": len(obs), "version_shapes": len(shapes), "use_lists": len(lists), "use_states": len(STATES)}
    if tier == "thorough":
        univ = common.shapes_V(3, 3, 2, 2)
        n = int(__import__("os").environ.get("VERIF_C04_SAMPLE", "4000"))
        for i in range(n):
            a, p = rng.choice(univ), rng.choice(univ)
            if rng.random() < 0.6:
                p = dict(a)
                kk = rng.choice(["comps", "letter", "suf", "rev"])
                p[kk] = rng.choice(univ)[kk]
            op = rng.choice(atoms.OPS[1:])
            if op == "~":
                a = dict(a, rev=None)
            add(dict(slotmenus[i % 5], op=op, ver=a, blk=""), p)
        UNIVERSE[tier]["sampled"] = n
    seen, out = set(), []
    for ob in obs:
        if ob["oid"] not in seen:
            seen.add(ob["oid"])
            out.append(ob)
    return out
