"""C35 - the Python/daemon command protocol never deadlocks or desynchronizes (Python side)."""
from pkgcore.ebuild import processor
from sx import core
from sx.runner import Harness
from sx.shims import patched

ID = "C35"
MANIFEST = {
    "technique": "bounded model checking with solver-decided choice (SX engine) of the Python side of the protocol: the real EbuildProcessor.generic_handler / expect / _consume_async_expects / readlines / write run on a processor object whose channel to the daemon is a scripted stub; the sequence of daemon-side events (replies to batched asynchronous expectations, matching or not; helper-style requests that need exactly one answer; request_sandbox_summary; phase completion and failure; die with a multi-line message; SIGINT and SIGTERM notices arriving between requests and in the middle of the expectation replies; unknown commands; an empty line) the number of batched expectations and whether their requests were written through or left in the write buffer are symbolic selectors; the engine forks over every feasible event sequence and checks what the Python side reads and writes against the protocol rules",
    "level_text": "Bounded model checking, exhaustive within the bound (0-2 batched expectations x event sequences of length <= 3 over a 10-event menu, each closed by a terminal event): the Python side never reads when the daemon has nothing left to send and never reads a reply while its own request is still unflushed in its write buffer (never both waiting), answers every request that needs an answer exactly once and before reading on, consumes exactly one reply per batched expectation, ends the session with UnhandledCommand on an unknown command, on a misaligned expectation reply and on the daemon's failure notices instead of misreading them, returns the phase result for 'phases succeeded', raises ProcessorError for 'phases failed', turns die / SIGINT / SIGTERM notices into their exceptions wherever they arrive, and a timed request disarms its alarm however it ends. The daemon side is a script (the bash implementation is outside this check).",
    "level_note": "Python side only: the bash loops (__ebd_main_loop, __ebd_process_ebuild_phases) are not executed, so agreement between the two implementations is not decided here; the event menu is taken from the commands the bash side sends.",
}
META = {
    "modules": ["pkgcore.ebuild.processor"],
    "functions": ["processor.EbuildProcessor.generic_handler", "processor.EbuildProcessor.expect", "processor.EbuildProcessor._consume_async_expects", "processor.EbuildProcessor.readlines/read/write", "processor.chuck_* handlers"],
    "stubs": ["the daemon channel (scripted reads, recorded writes)", "signal inside pkgcore.ebuild.processor (the alarm of a timed request is recorded, not armed)", "drop_ebuild_processor / shutdown_processor (recorded, no process is killed)", "processor object created without spawning bash"],
    "bounds": {"quick": "0-2 batched expectations, up to 3 events before the terminal one", "thorough": "same (the space is swept completely in both tiers)"},
    "outside": ["the bash side of the protocol", "an alarm that actually goes off (only whether a timed request disarms it is checked)", "real pipes (partial lines, EPIPE)"],
    "assumptions": ["the daemon sends whole lines"],
    "selector_only": True,
}

# (line(s) the daemon sends, kind)
EVENTS = [
    ("request_inherit foo", "request"), ("request_bashrc", "request"), ("request_sandbox_summary", "summary"), ("key DEPEND=x", "oneway"),
    ("SIGINT", "sigint"), ("SIGTERM", "sigterm"), ("", "empty"), ("frobnicate now", "unknown"), ("prob something", "failure-notice"), ("failed x", "failure-notice"),
]
TERMINALS = [("phases succeeded", "succeeded"), ("phases failed the reason", "failed"), ("dying\nline one\nline two\ndead", "dying"), ("wibble", "unknown")]
EXPECT_REPLIES = [("start_receiving_env succeeded", True), ("something else", False), ("SIGINT", "sigint"), ("dying\nthe message\ndead", "dying")]


class BothWaiting(BaseException):
    pass


class Channel:
    def __init__(self, lines):
        self.lines, self.log, self.unflushed = list(lines), [], False

    def readline(self):
        if self.unflushed:
            raise BothWaiting("Python reads a reply while its own request is still in its write buffer (never flushed to the daemon)")
        if not self.lines:
            raise BothWaiting("Python reads while the daemon has nothing left to send")
        l = self.lines.pop(0)
        self.log.append(("read", l))
        return (l + "\n").encode()

    def write(self, s):
        self.log.append(("write", s))
        self.unflushed = True

    def flush(self):
        self.log.append(("flush", None))
        self.unflushed = False


def make_ebp(lines):
    ebp = object.__new__(processor.EbuildProcessor)
    ch = Channel(lines)
    ebp.ebd_read = ebp.ebd_write = ch
    ebp._outstanding_expects = []
    ebp.pid = None
    ebp.processing_lock = False
    return ebp, ch


class ProtocolHarness(Harness):
    def setup(self, eng):
        n = self.ob["n"]
        return {"expects": [eng.int(f"expect_reply{i}", 0, len(EXPECT_REPLIES) - 1) for i in range(self.ob["nexp"])], "events": ([self.ob["first"]] if "first" in self.ob else []) + [eng.int(f"event{i}", 0, len(EVENTS) - 1) for i in range(n - (1 if "first" in self.ob else 0))], "terminal": eng.int("terminal", 0, len(TERMINALS) - 1), "timed": eng.bool("timed_request_while_replies_are_pending"), "buffered": eng.bool("batched_requests_written_without_flush") if self.ob["nexp"] else False}

    def body(self, inp):
        c = core.fix(inp) if core.ENG is not None else inp
        exp = [EXPECT_REPLIES[i] for i in c["expects"]]
        evs = [EVENTS[i] for i in c["events"]]
        term = TERMINALS[c["terminal"]]
        lines = []
        for r, _ in exp:
            lines += r.split("\n")
        timed = bool(c.get("timed")) and bool(exp)
        if timed:
            lines.append("yep!")
        for l, _ in evs:
            lines += l.split("\n")
        lines += term[0].split("\n")
        ebp, ch = make_ebp(lines)
        shutdowns = []
        answered = []

        def answer(name):
            def f(e, *args):
                answered.append(name)
                e.write(f"{name}-answer")

            return f

        extra = {"request_inherit": answer("request_inherit"), "request_bashrc": answer("request_bashrc"), "key": lambda e, *a: None}
        outcome = None
        timed_result = None
        alarm = {"armed": False}

        class FakeSignal:
            """signal as seen by the processor: the alarm is recorded instead of armed"""
            SIGALRM, SIG_DFL, ITIMER_REAL = "SIGALRM", "SIG_DFL", "ITIMER_REAL"

            @staticmethod
            def signal(sig, handler):
                pass

            @staticmethod
            def setitimer(which, seconds):
                alarm["armed"] = bool(seconds)

            def __getattr__(self, name):
                import signal as real

                return getattr(real, name)

        with patched((processor, "signal", FakeSignal()), (processor, "drop_ebuild_processor", lambda e: shutdowns.append("drop")), (processor.EbuildProcessor, "shutdown_processor", lambda self, force=False: shutdowns.append("shutdown")),
                     (processor.EbuildProcessor, "sandbox_summary", lambda self, *a: self.write("end_sandbox_summary"))):
            try:
                for _, want in [(None, "start_receiving_env succeeded")] * len(exp):
                    # the request itself, written through at once or left in the buffer for the batch
                    ebp.write("start_receiving_env", flush=not c.get("buffered"))
                    ebp.expect(want, async_req=True, flush=True)
                if timed:
                    # a liveness probe with a timeout while batched replies are still unread (is_responsive does this)
                    ebp.write("alive")
                    try:
                        timed_result = ebp.expect("yep!", flush=True, timeout=5)
                    finally:
                        alarm["after_timed"] = alarm["armed"]
                outcome = ("returned", ebp.generic_handler(extra))
            except BothWaiting as e:
                outcome = ("both-waiting", str(e))
            except KeyboardInterrupt:
                outcome = ("KeyboardInterrupt", None)
            except SystemExit:
                outcome = ("SystemExit", None)
            except processor.UnhandledCommand as e:
                outcome = ("UnhandledCommand", None)
            except processor.InternalError:
                outcome = ("InternalError", None)
            except processor.ProcessorError as e:
                outcome = ("ProcessorError", str(e.error)[:40])
        # ---- what the protocol demands for this event sequence
        want = None
        expected_answers = []
        problems = []
        special = next((ok for _, ok in exp if ok in ("sigint", "dying")), None)
        all_good = all(ok is True for _, ok in exp)
        if special == "sigint":
            want = ("KeyboardInterrupt", None)
        elif special == "dying":
            want = ("ProcessorError", None)
        elif exp and not timed and not all_good:
            want = ("UnhandledCommand", None)  # expects out of alignment
        else:
            if timed and all_good and timed_result is not True:
                problems.append("the timed request was matched with another request's reply (reported as failed although every reply was right)")
            if timed and not all_good and timed_result is not False:
                problems.append("the timed request was reported as answered although a batched reply was wrong")
            for l, kind in evs + [(term[0], term[1])]:
                if kind == "request":
                    expected_answers.append(l.split()[0])
                elif kind == "summary":
                    expected_answers.append("end_sandbox_summary")
                elif kind in ("oneway", "sigterm"):
                    continue
                elif kind == "sigint":
                    want = ("KeyboardInterrupt", None)
                    break
                elif kind == "empty":
                    want = ("InternalError", None)
                    break
                elif kind in ("unknown", "failure-notice"):
                    want = ("UnhandledCommand", None)
                    break
                elif kind == "succeeded":
                    want = ("returned", True)
                elif kind == "failed":
                    want = ("ProcessorError", "the reason")
                elif kind == "dying":
                    want = ("ProcessorError", None)
        if special == "dying" and outcome[0] == "ProcessorError" and "the message" not in (outcome[1] or ""):
            problems.append(f"the die message was lost: {outcome[1]!r}")
        if alarm.get("after_timed"):
            problems.append("the timed request left its alarm armed: it goes off later, inside an unrelated exchange")
        if outcome[0] == "both-waiting":
            problems.append(outcome[1])
        elif want is not None and (outcome[0] != want[0] or (want[1] is not None and want[0] != "ProcessorError" and outcome[1] != want[1])):
            problems.append(f"ended with {outcome} instead of {want}")
        writes = [s.strip() for k, s in ch.log if k == "write" and s.strip() not in ("alive", "start_receiving_env")]
        got_answers = [w.replace("-answer", "") if w.endswith("-answer") else w for w in writes]
        if outcome[0] != "both-waiting" and got_answers != expected_answers[: len(got_answers)] or len(got_answers) < len(expected_answers) and outcome[0] in ("returned",):
            problems.append(f"answers {got_answers} instead of {expected_answers}")
        # every answer goes out before the next read
        pending = 0
        for k, s in ch.log:
            if k == "read":
                if pending:
                    problems.append("read on while a request was still unanswered")
                    break
                if s.split(" ")[0] in ("request_inherit", "request_bashrc", "request_sandbox_summary"):
                    pending = 1
            elif k == "write":
                pending = 0
        return {"expect_replies": [r for r, _ in exp], "events": [l for l, _ in evs], "terminal": term[0], "outcome": list(outcome), "writes": writes, "problems": problems}

    def prop(self, inp, obs):
        return not obs["problems"]


def harness(ob):
    return ProtocolHarness(ob)


UNIVERSE = {}


def obligations(tier, seed):
    obs = []
    for e in range(3):
        for n in range(4):
            if n == 3:
                obs += [{"oid": f"{e} batched expectations|3 events, first: {EVENTS[f][0] or '<empty line>'}", "nexp": e, "n": n, "first": f, "max_paths": 200000, "max_s": 2400} for f in range(len(EVENTS))]
            else:
                obs.append({"oid": f"{e} batched expectations|{n} events", "nexp": e, "n": n, "max_paths": 200000, "max_s": 2400})
    UNIVERSE[tier] = {"obligations": len(obs)}
    return obs
