"""C26 - XPAK metadata segments round-trip and rewrites preserve the archive."""
import os
import shutil
import tempfile

from pkgcore.binpkg import xpak
from sx import core
from sx.runner import Harness

ID = "C26"
MANIFEST = {
    "technique": "bounded model checking with solver-decided choice (SX engine): the number of bytes preceding the segment (0..24), whether an old segment exists, the key set and the text/binary/non-ASCII/empty values of a first and a second write are symbolic selectors; the engine forks over every feasible combination, runs the real Xpak.write_xpak and the reader (keys_dict/_check_magic/_get_data/items) on a real scratch file, and compares the items read back and the raw bytes with the specification",
    "level_text": "Bounded model checking, exhaustive within the bound: prefix lengths 0..24, with and without an existing segment, two consecutive writes drawn from 9 payloads (growing and shrinking, unicode, binary environment, empty values, up to 3 keys): items() returns the same keys in order with text decoded and environment* values as bytes; the bytes before the segment are untouched; the file ends exactly at the new trailer (the old segment is replaced entirely). Selector-only; real code on a real file.",
    "level_note": "selector-only harness (labelled as such): prefix lengths and payloads are enumerated by the solver rather than symbolic inside struct/file code (C-level struct and file I/O realise values).",
}
META = {
    "modules": ["pkgcore.binpkg.xpak"],
    "functions": ["xpak.Xpak.write_xpak", "xpak.Xpak.keys_dict", "xpak.Xpak._check_magic", "xpak.Xpak._get_data", "xpak.Xpak.items/keys"],
    "bounds": {"quick": "prefix length in {0,1,7,8,15,16,17,24}, 9 payloads for each of two writes, file with/without prefix segment", "thorough": "prefix length 0..24"},
    "outside": ["data_source (non-path) targets", "payloads over 64 KiB", "more than 3 keys"],
    "assumptions": [],
    "selector_only": True,
}

PAYLOADS = [
    {}, {"CATEGORY": "dev-util"}, {"CATEGORY": "dev-util", "PF": "diffball-1.0"}, {"DESCRIPTION": "café résumé"}, {"environment.bz2": b"\x00\xff\x10BZ", "SLOT": "0"},
    {"A": "", "B": "x", "environment": b""}, {"USE": "a b c d e f g h i j k l m n o p q r s t u v w x y z" * 3, "K": "é"}, {"repo": "gentoo"}, {"X": "éé", "Y": "y", "Z": "中"},
]
PREFIX_Q = [0, 1, 7, 8, 15, 16, 17, 24]


class XpakHarness(Harness):
    def setup(self, eng):
        lo, hi = self.ob["prange"]
        return {"p": eng.int("prefix_len", lo, hi), "first": eng.int("first", -1, len(PAYLOADS) - 1), "second": eng.int("second", 0, len(PAYLOADS) - 1)}

    def body(self, inp):
        c = core.fix(inp) if core.ENG is not None else inp
        P, first, second = c["p"], c["first"], c["second"]
        if self.ob["tier"] == "quick" and P not in PREFIX_Q:
            return {"skip": True}
        td = tempfile.mkdtemp(prefix="c26-")
        try:
            path = os.path.join(td, "pkg.tbz2")
            prefix = bytes((i * 37 + 11) % 251 for i in range(P))
            with open(path, "wb") as f:
                f.write(prefix)
            out = {"P": P, "first": first, "second": second, "steps": []}
            for idx in ([first] if first >= 0 else []) + [second]:
                data = PAYLOADS[idx]
                xpak.Xpak.write_xpak(path, data)
                raw = open(path, "rb").read()
                try:
                    items = [(k, v) for k, v in xpak.Xpak(path).items()]
                except Exception as e:
                    items = "exception " + type(e).__name__
                want = [("REPO" if k == "repo" else k, v) for k, v in data.items()]
                index_len = sum(12 + len(k.encode()) for k in data)
                data_len = sum(len(v.encode("utf8") if isinstance(v, str) else v) for v in data.values())
                out["steps"].append({
                    "payload": idx, "items_ok": items == want, "items": repr(items)[:200], "prefix_intact": raw[:P] == prefix,
                    "file_len": len(raw), "want_len": P + 16 + index_len + data_len + 16, "ends_with_trailer": raw[-4:] == b"STOP" and raw[-16:-8] == b"XPAKSTOP",
                })
            return out
        finally:
            shutil.rmtree(td, ignore_errors=True)

    def prop(self, inp, obs):
        if obs.get("skip"):
            return True
        return all(s["items_ok"] and s["prefix_intact"] and s["file_len"] == s["want_len"] and s["ends_with_trailer"] for s in obs["steps"])


def harness(ob):
    return XpakHarness(ob)


UNIVERSE = {}


def obligations(tier, seed):
    obs = [{"oid": f"write-rewrite|prefix={lo}..{hi}", "tier": tier, "prange": [lo, hi], "max_paths": 100000, "max_s": 1800} for lo, hi in ((0, 0), (1, 7), (8, 15), (16, 17), (18, 24))]
    UNIVERSE[tier] = {"combinations": 25 * 10 * 9}
    return obs
