"""C15 - successful resolutions produce dependency-closed, slot-consistent plans."""
import signal

from pkgcore.ebuild import resolver
from pkgcore.ebuild.atom import atom
from pkgcore.ebuild.conditionals import DepSet
from pkgcore.test.misc import FakePkg, FakeRepo
from sx import core
from sx.runner import Harness

ID = "C15"
MANIFEST = {
    "technique": "bounded model checking with solver-decided choice (SX engine): the dependency strings of the packages of a small source repository (runtime, build, post, build-host and install-time classes; plain atoms, version ranges, slot deps, any-of groups, weak and strong blockers, cycles), the installed set, the targets and the resolver strategy (upgrade / minimal install, with and without re-verification of installed packages) are symbolic selectors; the engine forks over every feasible combination, runs the real resolver (ebuild.resolver.upgrade_resolver / min_install_resolver -> plan.merge_plan.add_atoms with choice_point, plan_state, pigeonholes, caching_repo) and checks the reported plan with a post-condition checker of the statement (no reference resolver is involved: only what a reported success must satisfy is checked)",
    "level_text": "Bounded model checking, exhaustive within the bound (three repository families: 7 packages over 4 names, 2 versions and 2 slots with 6 x 6 x 5 x 4 dependency menus x 4 installed sets x 5 target sets; a library spread over slots with weak/strong blockers against its old versions, 4 installed sets in both listing orders x 6 target sets; a fallback to an older version after a refused candidate; all x 4 strategies): whenever add_atoms reports success, the plan together with the installed packages it keeps contains a package matching every target, satisfies at least one alternative of every clause of every dependency class of every package it merges, holds at most one package per name and slot, and contains no package matched by a blocker of a merged package; building the resolver and resolving never raise. Selector-only.",
    "level_note": "selector-only harness (labelled as such). Packages are pkgcore.test.misc.FakePkg objects with DepSet attributes; repositories are list-backed FakeRepo objects. Nothing is claimed about resolutions that report failure.",
}
META = {
    "modules": ["pkgcore.resolver.plan", "pkgcore.resolver.choice_point", "pkgcore.resolver.state", "pkgcore.resolver.pigeonholes", "pkgcore.ebuild.resolver", "pkgcore.repository.misc"],
    "functions": ["resolver.upgrade_resolver / min_install_resolver", "plan.merge_plan.__init__/add_atoms/_rec_add_atom/process_dependencies/insert_blockers", "choice_point.choice_point", "state.plan_state and its operations", "pigeonholes.PigeonHoledSlots", "misc.caching_repo"],
    "bounds": {"quick": "three repository families: 4 names x 2 versions x 2 slots with 6 x 6 x 5 x 4 dependency menus; a library spread over slots with blockers against old versions; a fallback to an older version after a refused candidate", "thorough": "same (the space is swept completely in both tiers)"},
    "outside": ["USE-conditional dependencies", "more than 7 packages", "resolutions that report failure (no completeness claim)", "the order of the plan (only the final state is judged)"],
    "assumptions": [],
    "selector_only": True,
}

# dependency menus (class, string) per package
A2_DEPS = [("rdepend", ""), ("rdepend", "cat/b"), ("rdepend", ">=cat/b-2"), ("depend", "|| ( cat/c cat/d )"), ("rdepend", "cat/b:0 !cat/d"), ("pdepend", "cat/c"), ]
B2_DEPS = [("rdepend", ""), ("depend", "|| ( cat/c cat/d )"), ("rdepend", "cat/c !!cat/d"), ("bdepend", "cat/d"), ("rdepend", "cat/a"), ("idepend", "cat/c:0")]
C1_DEPS = [("rdepend", ""), ("rdepend", "!cat/d"), ("rdepend", "cat/d"), ("pdepend", "cat/a"), ("rdepend", "|| ( cat/d:1 cat/d:0 )")]
D_DEPS = [("rdepend", ""), ("rdepend", "!cat/c"), ("depend", "cat/b"), ("rdepend", "<cat/b-2")]
INSTALLED = [[], ["cat/b-1"], ["cat/a-1", "cat/b-1"], ["cat/d-1"]]
TARGETS = [["cat/a"], ["cat/a", "cat/d"], [">=cat/b-2"], ["cat/c", "cat/a"], ["cat/d:1"]]
# slotted-library family (a library spread over slots, weak and strong blockers against its old versions)
S_NEW = [{"rdepend": "!<app/lib-2"}, {"rdepend": "!!<app/lib-1.5"}, {"idepend": "!<app/lib-2"}, {"rdepend": "app/lib:2 !<app/lib-1.1"}]
S_INSTALLED = [[("app/lib-1.0", {})], [("app/lib-1.0", {}), ("app/lib-3.0", {"slot": "2"})], [], [("app/lib-1.1", {}), ("app/lib-3.0", {"slot": "2"})]]
S_TARGETS = [["app/meta"], ["app/new"], ["app/lib:2", "app/new"], ["app/tool"], ["app/tool", "app/new"], ["app/lib"]]
# fallback family (a candidate version is refused after its dependencies were looked at; the next one must bring its own)
F_BLOCKERS = ["!!>=c/x-2", "!>=c/x-2", ""]
F_X1 = [("rdepend", "c/needed"), ("rdepend", ""), ("pdepend", "c/needed"), ("depend", "c/needed")]
F_TARGETS = [["c/p", "c/x"], ["c/x", "c/p"], ["c/p", "c/y"], ["c/y", "c/p"]]
F_INSTALLED = [[], ["c/x-2"], ["c/p-1"]]
STRATEGIES = ["upgrade", "upgrade-no-verify-vdb", "min-install", "min-install-no-verify-vdb"]
DEP_CLASSES = ("depend", "rdepend", "bdepend", "pdepend", "idepend")


class ResolverDoesNotTerminate(Exception):
    pass


def _timeout(sig, frame):
    raise ResolverDoesNotTerminate("no result after 60 s")


class Repo(FakeRepo):
    livefs = False

    def has_match(self, r):
        return bool(self.match(r))


def mk(repo, cpv, slot="0", **deps):
    p = FakePkg(cpv, repo=repo, slot=slot, eapi="8")
    for k in DEP_CLASSES:
        object.__setattr__(p, k, DepSet.parse(deps.get(k, ""), atom))
    return p


def clauses(depset):
    """CNF of a conditional-free dependency set: list of alternatives (atoms)"""
    return [list(c) for c in depset.cnf_solutions()]


class ResolveHarness(Harness):
    def setup(self, eng):
        ob = self.ob
        fam = ob.get("family", "abcd")
        inp = {"strategy": eng.int("strategy", 0, len(STRATEGIES) - 1)}
        if fam == "abcd":
            inp.update({"a2": ob["a2"], "b2": ob["b2"], "inst": eng.int("installed", 0, len(INSTALLED) - 1), "targets": eng.int("targets", 0, len(TARGETS) - 1)})
            inp["c1"] = eng.int("deps_of_c1", 0, len(C1_DEPS) - 1)
            inp["d"] = eng.int("deps_of_d", 0, len(D_DEPS) - 1)
        elif fam == "slotted":
            inp.update({"new": ob["new"], "lib2slot": eng.int("slot_of_lib2", 0, 1), "inst": eng.int("installed", 0, len(S_INSTALLED) - 1), "targets": eng.int("targets", 0, len(S_TARGETS) - 1), "vdb_order": eng.bool("vdb_lists_lower_slot_first")})
        else:
            inp.update({"blocker": eng.int("blocker", 0, len(F_BLOCKERS) - 1), "x1dep": eng.int("deps_of_x1", 0, len(F_X1) - 1), "targets": eng.int("targets", 0, len(F_TARGETS) - 1), "inst": eng.int("installed", 0, len(F_INSTALLED) - 1)})
        return inp

    def build(self, c):
        fam = self.ob.get("family", "abcd")
        dep = lambda menu, i: {menu[i][0]: menu[i][1]}
        if fam == "abcd":
            spec = {
                "cat/a-1": {"rdepend": "cat/b"}, "cat/a-2": dep(A2_DEPS, c["a2"]), "cat/b-1": {}, "cat/b-2": dep(B2_DEPS, c["b2"]), "cat/c-1": dep(C1_DEPS, c["c1"]),
                "cat/d-1": dep(D_DEPS, c["d"]), "cat/d-2": {"slot": "1"},
            }
            return spec, [(cpv, spec[cpv]) for cpv in INSTALLED[c["inst"]]], TARGETS[c["targets"]]
        if fam == "slotted":
            spec = {
                "app/lib-1.1": {}, "app/lib-2.0": {"slot": "02"[c["lib2slot"]]}, "app/lib-3.0": {"slot": "2"}, "app/new-1": dict(S_NEW[c["new"]]), "app/old-1": {},
                "app/meta-1": {"rdepend": "|| ( app/new app/old )"}, "app/tool-1": {"rdepend": "app/lib:2", "pdepend": ">=app/lib-1.1:0"},
            }
            inst = [(cpv, dict(kw)) for cpv, kw in S_INSTALLED[c["inst"]]]
            if not c["vdb_order"]:
                inst = list(reversed(inst))
            return spec, inst, S_TARGETS[c["targets"]]
        spec = {"c/p-1": {"rdepend": F_BLOCKERS[c["blocker"]]}, "c/x-2": {}, "c/x-1": dep(F_X1, c["x1dep"]), "c/needed-1": {}, "c/y-1": {"rdepend": "c/x"}}
        return spec, [(cpv, spec.get(cpv, {})) for cpv in F_INSTALLED[c["inst"]]], F_TARGETS[c["targets"]]

    def body(self, inp):
        c = core.fix(inp) if core.ENG is not None else inp
        src, vdb = Repo(repo_id="src"), Repo(repo_id="vdb")
        vdb.livefs = True
        spec, inst, tgts = self.build(c)
        src.pkgs = [mk(src, cpv, **kw) for cpv, kw in spec.items()]
        vdb.pkgs = [mk(vdb, cpv, **kw) for cpv, kw in inst]
        targets = [atom(t) for t in tgts]
        strat = STRATEGIES[c["strategy"]]
        f = resolver.upgrade_resolver if strat.startswith("upgrade") else resolver.min_install_resolver
        r = f([vdb], [src], verify_vdb=not strat.endswith("no-verify-vdb"))
        # a resolution of 7 packages takes milliseconds; one that is still running after 60 s does not terminate
        old = signal.signal(signal.SIGALRM, _timeout)
        signal.alarm(60)
        try:
            failed = r.add_atoms(targets)
        finally:
            signal.alarm(0)
            signal.signal(signal.SIGALRM, old)
        out = {"deps": {k: v for k, v in spec.items() if v}, "installed": [cpv for cpv, _ in inst], "targets": tgts, "strategy": strat, "success": not failed, "plan": [], "problems": []}
        if failed:
            return out
        final = {p.cpvstr: p for p in vdb.pkgs}
        merged = []
        for op in r.state.iter_ops(True):
            out["plan"].append(str(op))
            if op.desc == "remove":
                final.pop(op.pkg.cpvstr, None)
            elif op.desc == "replace":
                final.pop(op.old_pkg.cpvstr, None)
                final[op.pkg.cpvstr] = op.pkg
                if not op.pkg.repo.livefs:
                    merged.append(op.pkg)
            else:
                final[op.pkg.cpvstr] = op.pkg
                # an installed package the resolver walked over is kept, not merged
                if not op.pkg.repo.livefs:
                    merged.append(op.pkg)
        pk = list(final.values())
        problems = out["problems"]
        for t in targets:
            if not any(t.match(p) for p in pk):
                problems.append(f"target {t} is matched by nothing in the final state")
        seen = {}
        for p in pk:
            k = (p.key, p.slot)
            if k in seen:
                problems.append(f"{seen[k]} and {p.cpvstr} share the slot {p.key}:{p.slot}")
            seen[k] = p.cpvstr
        for m in merged:
            if m.cpvstr not in final:
                continue  # merged and later replaced
            for cls in DEP_CLASSES:
                for alt in clauses(getattr(m, cls)):
                    pos = [a for a in alt if not a.blocks]
                    neg = [a for a in alt if a.blocks]
                    if pos and not any(a.match(p) for a in pos for p in pk) and not (neg and not any(a.match(p) for a in neg for p in pk if p is not m)):
                        problems.append(f"{m.cpvstr}: {cls} clause ( {' | '.join(map(str, alt))} ) is not satisfied")
                    if not pos:
                        for a in neg:
                            hit = [p.cpvstr for p in pk if p is not m and a.match(p)]
                            if hit:
                                problems.append(f"{m.cpvstr}: blocker {a} matches {hit} in the final state")
        out["final"] = sorted(final)
        return out

    def prop(self, inp, obs):
        return not obs["problems"]


def harness(ob):
    return ResolveHarness(ob)


UNIVERSE = {}


def obligations(tier, seed):
    obs = [{"oid": f"a-2: {A2_DEPS[i][0]}='{A2_DEPS[i][1]}'|b-2: {B2_DEPS[j][0]}='{B2_DEPS[j][1]}'", "a2": i, "b2": j, "max_paths": 100000, "max_s": 2400} for i in range(len(A2_DEPS)) for j in range(len(B2_DEPS))]
    obs += [{"oid": f"slotted library|app/new: {S_NEW[i]}", "family": "slotted", "new": i, "max_paths": 100000, "max_s": 2400} for i in range(len(S_NEW))]
    obs += [{"oid": "fallback to an older version", "family": "fallback", "max_paths": 100000, "max_s": 2400}]
    UNIVERSE[tier] = {"obligations": len(obs)}
    return obs
