"""C10 - REQUIRED_USE solving is sound, complete and preference-first."""
import itertools
import random

import z3

from pkgcore.ebuild import conditionals
from pkgcore.restrictions import boolean, required_use, values
from sx import core
from sx.core import SymBool
from sx.dz import DZ, at_most_one, exactly_one
from sx.runner import Harness

ID = "C10"
MANIFEST = {
    "technique": "z3 equivalence/completeness queries on the artefacts of the real REQUIRED_USE pipeline (DepSet.parse -> _compiled_constraints -> find_constraint_satisfaction): every produced assignment satisfies the reference formula, 'formula and not any produced assignment' is UNSAT, preference order checked; plus symbolic execution of each compiled constraint closure on symbolic flag values against the sub-formula",
    "level_text": "Bounded symbolic model checking: for each enumerated REQUIRED_USE tree and IUSE/forced/preferred configuration the solver decides soundness of every produced assignment, completeness (no satisfying assignment outside the produced set, UNSAT query over all flag valuations), uniqueness and preference-first; the compiled constraint closures are executed symbolically over all flag valuations. Bounded by tree depth and number of flags.",
    "level_note": "Trusted: my propositional reading of ||, ^^, ??, all-of and (negated) conditionals; z3. snakeoil.constraints.Problem is executed as a dependency, not claimed. The real code runs concretely for the solution list (artefact) and symbolically for the constraint closures; violations carry the concrete inputs and are replayed natively.",
}
META = {
    "modules": ["pkgcore.restrictions.required_use", "pkgcore.ebuild.conditionals", "pkgcore.ebuild.ebuild_src"],
    "functions": [
        "required_use.find_constraint_satisfaction", "required_use._compiled_constraints", "required_use.__to_single_constraint/__to_multiple_constraint",
        "required_use.__condition/__or_constraint/__and_constraint/__just_one_constraint/__at_most_one_constraint/__use_flags_state_any/__wrapper",
        "conditionals.DepSet.parse (REQUIRED_USE operators, as ebuild_src.required_use passes them)", "snakeoil.constraints.Problem (dependency)",
    ],
    "shims": [],
    "bounds": {
        "quick": "fixed core of operator shapes (each of || ^^ ?? all-of with 1-4 members, conditionals, negations, nesting to depth 3) + 250 seeded random trees over <=5 flags, each under 6 IUSE/forced/preferred configurations (forced and preferred sets may overlap)",
        "thorough": "core + 5000 seeded random trees x 12 configurations",
    },
    "outside": ["more than 5 flags", "depth > 3", "a flag forced on and off at once", "forced flags outside IUSE"],
    "assumptions": ["|| = at least one, ^^ = exactly one, ?? = at most one, flag? ( x ) = flag implies all of x, !flag = flag off"],
    "selector_only": False,
}

FLAGS = ["a", "b", "c", "d", "e"]
OPS = {"||": boolean.OrRestriction, "": boolean.AndRestriction, "^^": boolean.JustOneRestriction, "??": boolean.AtMostOneOfRestriction}


def render(t):
    if t[0] == "f":
        return ("!" if t[2] else "") + t[1]
    if t[0] == "op":
        return (t[1] + " ( " if t[1] else "( ") + " ".join(render(c) for c in t[2]) + " )"
    return ("!" if t[2] else "") + t[1] + "? ( " + " ".join(render(c) for c in t[3]) + " )"


def denote(t, V):
    if t[0] == "f":
        return z3.Not(V[t[1]]) if t[2] else V[t[1]]
    if t[0] == "op":
        ch = [denote(c, V) for c in t[2]]
        if t[1] == "||":
            return z3.Or(ch)
        if t[1] == "^^":
            return exactly_one(ch)
        if t[1] == "??":
            return at_most_one(ch)
        return z3.And(ch)
    cond = z3.Not(V[t[1]]) if t[2] else V[t[1]]
    return z3.Implies(cond, z3.And([denote(c, V) for c in t[3]]))


def flags_of(t):
    if t[0] == "f":
        return {t[1]}
    if t[0] == "op":
        return set().union(*[flags_of(c) for c in t[2]])
    return {t[1]}.union(*[flags_of(c) for c in t[3]])


def _mk_node(data):
    if data[0] == "!":
        return values.ContainmentMatch(data[1:], negate=True)
    return values.ContainmentMatch(data)


def parse(s):
    return conditionals.DepSet.parse(s, values.ContainmentMatch, operators=dict(OPS), element_func=_mk_node, attr="REQUIRED_USE")


class SolveHarness(Harness):
    """DZ: solution list of the real solver vs the reference formula"""

    def body(self, cinp):
        r = parse(cinp["ru"])
        sols = list(
            required_use.find_constraint_satisfaction(
                r, set(cinp["iuse"]), force_true=set(cinp["ft"]), force_false=set(cinp["ff"]), prefer_true=set(cinp["pt"])
            )
        )
        return {"solutions": [sorted(s.items()) for s in sols]}

    def cinp(self):
        ob = self.ob
        return {"ru": " ".join(render(t) for t in ob["tree"]), "iuse": ob["iuse"], "ft": ob["ft"], "ff": ob["ff"], "pt": ob["pt"]}

    def region(self, name, inp):
        return _region(name, self.ob["tree"])

    def run_custom(self, tier, regions):
        ob = self.ob
        dz = DZ()
        for r in regions:
            if _region(r, ob["tree"]):
                return dz.result(ob, "known-region", paths=0, replays=0)
        cinp = self.cinp()
        obs = self.body(cinp)
        sols = [{k: v for k, v in s} for s in obs["solutions"]]
        tree = ob["tree"]
        allv = sorted(set(ob["iuse"]).union(*[flags_of(t) for t in tree]))
        V = {v: z3.Bool(v) for v in allv}
        F = z3.And([denote(t, V) for t in tree])
        dom = []
        for v in allv:
            if v not in ob["iuse"]:
                dom.append(z3.Not(V[v]))
            elif v in ob["ft"]:
                dom.append(V[v])
            elif v in ob["ff"]:
                dom.append(z3.Not(V[v]))
        FD = z3.And([F] + dom)

        def bad(what, **kw):
            return dz.result(ob, "violated", nvars=len(allv), cex={"cinp": cinp, "native": obs, "predicted": obs, "expected": dict(what=what, **kw)})

        # every produced assignment assigns every variable, satisfies F and the forcing
        for s in sols:
            if set(s) != set(allv):
                return bad("assignment does not cover exactly IUSE + mentioned flags", assignment=sorted(s.items()))
            st, _ = dz.check(z3.Not(z3.substitute(FD, *[(V[v], z3.BoolVal(bool(s[v]))) for v in allv])))
            if st != "unsat":
                return bad("produced assignment violates REQUIRED_USE / forcing / IUSE", assignment=sorted(s.items()))
        # uniqueness
        keys = [tuple(sorted(s.items())) for s in sols]
        if len(set(keys)) != len(keys):
            return bad("assignment produced twice")
        # completeness: no satisfying assignment outside the produced set
        blk = [z3.Or([V[v] != z3.BoolVal(bool(s[v])) for v in allv]) for s in sols]
        st, m = dz.check(FD, *blk)
        if st == "sat":
            miss = {v: z3.is_true(m.eval(V[v], model_completion=True)) for v in allv}
            return bad("satisfying assignment never produced", missing=sorted(miss.items()))
        if st != "unsat":
            return dz.result(ob, "inconclusive", reason="solver " + str(m))
        # preference first
        P = {}
        for v in allv:
            if v not in ob["iuse"]:
                P[v] = False
            elif v in ob["ft"]:
                P[v] = True
            elif v in ob["ff"]:
                P[v] = False
            else:
                P[v] = v in ob["pt"]
        st, _ = dz.check(z3.substitute(FD, *[(V[v], z3.BoolVal(P[v])) for v in allv]))
        if st == "sat":
            if not sols or sols[0] != P:
                return bad("preferred assignment satisfies the constraint but is not produced first", preferred=sorted(P.items()), first=sorted(sols[0].items()) if sols else None)
        return dz.result(ob, "discharged", nvars=len(allv), nontrivial=True, witness={"inputs": cinp, "observed": {"n_solutions": len(sols), "first": obs["solutions"][:1]}})


class CompiledHarness(Harness):
    """SX: the compiled constraint closures on symbolic flag values"""

    def setup(self, eng):
        self.flags = sorted(set().union(*[flags_of(t) for t in self.ob["tree"]]))
        return {"ru": " ".join(render(t) for t in self.ob["tree"]), "on": {f: eng.bool(f) for f in self.flags}}

    def body(self, inp):
        r = parse(inp["ru"])
        res = True
        for constraint, variables in required_use._compiled_constraints(r):
            ok = constraint(**{v: inp["on"][v] for v in variables})
            res = res and ok
        return {"all": res}

    def prop(self, inp, obs):
        V = {f: core.unwrap_bool(inp["on"][f]) for f in self.flags}
        F = z3.And([denote(t, V) for t in self.ob["tree"]])
        return core.eq_term(obs["all"], F)

    def region(self, name, inp):
        return _region(name, self.ob["tree"])


def _region(name, tree):
    if name == "single-member-at-most-one":
        def has(t):
            if t[0] == "f":
                return False
            if t[0] == "op":
                return (t[1] == "??" and len(t[2]) == 1) or any(has(c) for c in t[2])
            return any(has(c) for c in t[3])
        return any(has(t) for t in tree)
    raise KeyError(name)


def harness(ob):
    return CompiledHarness(ob) if ob["kind"] == "compiled" else SolveHarness(ob)


def F_(n, neg=False):
    return ["f", n, neg]


def rand_tree(rng, depth, flags):
    r = rng.random()
    if depth == 0 or r < 0.3:
        return F_(rng.choice(flags), rng.random() < 0.3)
    if r < 0.75:
        k = rng.choice(["||", "^^", "??", ""])
        n = rng.choice([1, 2, 2, 3, 3, 4])
        return ["op", k, [rand_tree(rng, depth - 1, flags) for _ in range(n)]]
    return ["c", rng.choice(flags), rng.random() < 0.3, [rand_tree(rng, depth - 1, flags) for _ in range(rng.choice([1, 1, 2]))]]


def core_trees():
    a, b, c, d = (F_(x) for x in "abcd")
    out = []
    for k in ("||", "^^", "??", ""):
        for n in (1, 2, 3, 4):
            out.append([["op", k, [F_(x) for x in "abcd"[:n]]]])
        out.append([["op", k, [a, F_("b", True)]]])
        out.append([["op", k, [a, ["op", "", [b, c]]]]])
        out.append([["op", k, [["c", "a", False, [b]], c]]])
        out.append([["c", "d", False, [["op", k, [a, b, c]]]]])
        out.append([["c", "d", True, [["op", k, [a, b]]]], ["op", k, [c, d]]])
    out += [
        [a], [F_("a", True)], [a, b], [["c", "a", False, [b]]], [["c", "a", True, [b]]], [["c", "a", False, [F_("b", True)]]],
        [["c", "a", False, [["c", "b", False, [c]]]]], [["c", "a", False, [b, c]], ["c", "b", True, [F_("c", True)]]],
        [["op", "^^", [a, b, c]], ["c", "a", False, [d]]], [["op", "||", [a, b]], ["op", "??", [a, b]]], [["op", "^^", [a, b]], ["op", "??", [b, c]]],
        [["op", "||", [["op", "^^", [a, b]], ["op", "??", [c, d]]]]], [["op", "^^", [["op", "||", [a, b]], c, d]]],
        [["op", "??", [["op", "", [a, b]], ["op", "", [c, d]], a]]], [["c", "a", False, [["op", "^^", [b, c, d]]]], ["c", "b", False, [F_("a", True)]]],
    ]
    return out


def configs(rng, tree, n):
    fl = sorted(set().union(*[flags_of(t) for t in tree]))
    out = [
        {"iuse": fl, "ft": [], "ff": [], "pt": []},
        {"iuse": fl, "ft": [], "ff": [], "pt": fl[:1]},
        {"iuse": fl, "ft": fl[:1], "ff": fl[1:2], "pt": fl[1:3]},
        {"iuse": fl[1:] + ["z"], "ft": [], "ff": [], "pt": fl[-1:]},
    ]
    while len(out) < n:
        iuse = [f for f in fl + ["z"] if rng.random() < 0.8]
        ft = [f for f in iuse if rng.random() < 0.2]
        ff = [f for f in iuse if f not in ft and rng.random() < 0.2]
        pt = [f for f in iuse if rng.random() < 0.4]
        out.append({"iuse": iuse, "ft": ft, "ff": ff, "pt": pt})
    return out[:n]


UNIVERSE = {}


def obligations(tier, seed):
    rng = random.Random(seed)
    trees = core_trees()
    nrand, ncfg = (250, 6) if tier == "quick" else (5000, 12)
    for _ in range(nrand):
        trees.append([rand_tree(rng, 3, FLAGS[: rng.choice([2, 3, 4, 5])]) for _ in range(rng.choice([1, 1, 2]))])
    obs, seen = [], set()
    for tree in trees:
        s = " ".join(render(t) for t in tree)
        if s in seen:
            continue
        seen.add(s)
        obs.append({"oid": "compiled:" + s, "kind": "compiled", "tree": tree})
        for i, cfg in enumerate(configs(rng, tree, ncfg)):
            obs.append(dict(oid=f"solve:{s}|iuse={','.join(cfg['iuse'])}|ft={','.join(cfg['ft'])}|ff={','.join(cfg['ff'])}|pt={','.join(cfg['pt'])}", kind="solve", tree=tree, **cfg))
    UNIVERSE[tier] = {"trees": len(seen), "core_trees": len(core_trees()), "configs_per_tree": ncfg}
    return obs
