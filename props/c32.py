"""C32 - every IPC helper request gets exactly one truthful reply."""
import itertools
import types

import z3

from pkgcore.ebuild import ebd_ipc
from sx import core, lower
from sx.core import SymBool, SymInt, SymStr
from sx.runner import Harness
from sx.shims import patched, sym_isinstance, sym_str

ID = "C32"
MANIFEST = {
    "technique": "symbolic execution (SX proxies + z3) of the real IpcCommand.__call__ / _encode_ret / IpcError reply encoding (AST-lowered copies compiled from /repo/src on every run) with a scripted daemon channel: the helper's outcome is symbolic (no value, int, text, (code, message) pair, IpcCommandError with symbolic code and message, internal exception), the nonfatal flag is symbolic and messages are strings of 0-3 symbolic characters over {a, newline, BEL, space}; plus the real _InstallWrapper._install_cmd / _install_dirs_cmd with the external install command stubbed by a symbolic exit status and output; the reply lines written per request are checked on every path",
    "level_text": "Bounded symbolic model checking of the reply framing: for every outcome kind the solver proves for all exit codes in -99999..99999, all messages in the bound and both nonfatal settings that exactly one reply is produced per request (written by __call__, or carried by the raised IpcError for the dispatcher to write), that it is a single line, that its status field is 0 exactly when the action succeeded; and that the install-command fallback raises exactly when the external status is non-zero, carrying that status. Partial: the helpers' file-system effects and the bash side of the channel are not modelled.",
    "level_note": "Stubs (part of the claim): FakeEbd (scripted reads, recorded writes), helper run() returning the symbolic outcome, snakeoil spawn.spawn_get_output -> (symbolic status, output lines), chdir no-op. An IpcCommandError is assumed to carry a non-zero code (its documented contract). Trusted: SX engine, lowering. Counterexamples are replayed natively on the unmodified classes.",
}
META = {
    "modules": ["pkgcore.ebuild.ebd_ipc"],
    "functions": ["ebd_ipc.IpcCommand.__call__ (lowered copy)", "ebd_ipc.IpcCommand._encode_ret (lowered copy)", "ebd_ipc.IpcError.__init__ (reply for fatal errors)", "ebd_ipc._InstallWrapper._install_cmd / _install_dirs_cmd (lowered copies)"],
    "stubs": ["FakeEbd", "helper.run()", "spawn.spawn_get_output", "chdir"],
    "bounds": {"quick": "outcome kinds {None, int, str, tuple, IpcCommandError, internal error} x nonfatal symbolic x message length 0-3 over {a,\\n,BEL,space} x code in -99999..99999; install fallback: 1-2 destination groups, status unbounded Int, 0-2 output lines", "thorough": "message length 4"},
    "outside": ["helpers' own file-system effects", "the bash reader (__ebd_read_array/__ipc_exit)", "argument parsing of the individual helpers (concrete)"],
    "assumptions": ["an IpcCommandError carries a non-zero code"],
    "selector_only": False,
}

MSG_ALPHA = "a\n\x07 "
_L = {}


def lowered():
    if not _L:
        for q in ("IpcCommand.__call__", "IpcCommand._encode_ret"):
            _L[q] = lower.shadow_func("pkgcore.ebuild.ebd_ipc", q, shim_names=("str", "isinstance", "len"))
        for q in ("_InstallWrapper._install_cmd", "_InstallWrapper._install_dirs_cmd"):
            _L[q] = None
    return _L


class FakeEbd:
    def __init__(self, lines):
        self.lines = list(lines)
        self.written = []

    def read(self):
        return self.lines.pop(0) + "\n"

    def write(self, data, **kw):
        self.written.append(data)


class Pkg:
    from pkgcore.ebuild.eapi import get_eapi as _g

    eapi = _g("8")


class Op:
    pkg = Pkg()
    observer = None
    ED = "/img"


class ReplyHarness(Harness):
    def setup(self, eng):
        ob = self.ob
        inp = {"nonfatal": eng.bool("nonfatal"), "code": eng.int("code", -99999, 99999), "msg": SymStr([eng.char(f"m{i}", MSG_ALPHA) for i in range(ob["mlen"])]) if ob["mlen"] else ""}
        if ob["kind"] == "error":
            eng.assume(inp["code"].e != 0)
        return inp

    def body(self, inp):
        ob = self.ob
        sym = core.ENG is not None
        kind = ob["kind"]
        nonfatal = core.fix(inp["nonfatal"]) if sym else inp["nonfatal"]
        code, msg = inp["code"], inp["msg"]
        L = lowered() if sym else None

        class Cmd(ebd_ipc.IpcCommand):
            def run(self, args):
                if kind == "none":
                    return None
                if kind == "int":
                    return code
                if kind == "str":
                    return msg
                if kind == "tuple":
                    return (code, msg)
                if kind == "error":
                    raise ebd_ipc.IpcCommandError(msg, code=code)
                raise RuntimeError("boom")

        if sym:
            Cmd.__call__ = L["IpcCommand.__call__"]
            Cmd._encode_ret = staticmethod(L["IpcCommand._encode_ret"])
        ebd = FakeEbd(["true" if nonfatal else "false", "/", "install", "", ""])
        cmd = Cmd(Op())
        replies = []
        raised = None
        binds = [(ebd_ipc.IpcCommand, "_encode_ret", staticmethod(L["IpcCommand._encode_ret"]))] if sym else []
        import contextlib

        @contextlib.contextmanager
        def nochdir(p):
            yield

        with patched(*(binds + [(ebd_ipc, "chdir", nochdir)])):
            try:
                if sym:
                    # the lowered __call__ runs in a copy of the module globals: rebind chdir there too
                    Cmd.__call__.__globals__["chdir"] = nochdir
                cmd(ebd)
            except ebd_ipc.IpcError as e:
                raised = type(e).__name__
                replies.append(e.ret)  # ebd.run_generic_phase writes e.ret for an IpcError
            except Exception as e:
                raised = type(e).__name__
        replies = list(ebd.written) + replies
        return {"replies": replies, "raised": raised, "nonfatal": nonfatal}

    def prop(self, inp, obs):
        kind = self.ob["kind"]
        rs = obs["replies"]
        if len(rs) != 1:
            return False
        r = rs[0]
        if isinstance(r, int) and not isinstance(r, bool):
            status, rest = z3.IntVal(r), ""
            text_items = []
        elif isinstance(r, (str, SymStr)):
            items = list(core.items_of(r))
            text_items = items
            # status = integer text up to the first (concrete) BEL; its digits may be symbolic
            k = next((i for i, c in enumerate(items) if isinstance(c, str) and c == "\x07"), len(items))
            st = items[:k]
            neg = bool(st) and st[0] == "-"
            if neg:
                st = st[1:]
            if not st:
                return False
            val = z3.IntVal(0)
            for c in st:
                if isinstance(c, str):
                    if not c.isdigit():
                        return False
                    val = val * 10 + int(c)
                else:
                    val = val * 10 + (c - 48)
            status = -val if neg else val
        elif isinstance(r, SymInt):
            status, text_items = r.e, []
        else:
            return False
        conds = [core._z3and(z3.Not(core.unwrap_bool(core.ceq(c, "\n")) if not isinstance(core.ceq(c, "\n"), bool) else z3.BoolVal(core.ceq(c, "\n"))) for c in text_items)]
        if kind in ("none", "int", "str"):
            success = z3.BoolVal(True)
        elif kind == "tuple":
            success = core.lift(inp["code"]) == 0
        else:
            success = z3.BoolVal(False)
        conds.append((status == 0) == success)
        if kind == "error":
            conds.append(z3.BoolVal((obs["raised"] is None) == bool(obs["nonfatal"])))
        if kind == "internal":
            conds.append(z3.BoolVal(obs["raised"] == "IpcInternalError"))
        return z3.And(conds)


class InstallHarness(Harness):
    def setup(self, eng):
        return {"ret": eng.int("ret", 0, 255), "nout": eng.int("nout", 0, 2)}

    def body(self, inp):
        ob = self.ob
        sym = core.ENG is not None
        nout = core.fix(inp["nout"]) if sym else inp["nout"]
        ret = inp["ret"]
        calls = []

        def spawn_get_output(cmd, **kw):
            calls.append(list(cmd))
            return ret, ["install: error line %d" % i for i in range(nout)]

        w = object.__new__(ebd_ipc.Doins)
        w.op = Op()
        w.opts = types.SimpleNamespace(dest="/usr", insoptions=["-m0644", "--weird"], diroptions=["-m0755", "--weird"])
        w.install_symlinks = lambda s: list(s)
        raised = None
        fake_spawn = types.SimpleNamespace(spawn_get_output=spawn_get_output)
        fake_os = types.SimpleNamespace(path=types.SimpleNamespace(islink=lambda p: False, sep="/", basename=lambda p: p.rsplit("/", 1)[-1]), sep="/")
        binds = [(ebd_ipc, "spawn", fake_spawn)]
        if sym:
            binds.append((ebd_ipc.IpcCommand, "_encode_ret", staticmethod(lowered()["IpcCommand._encode_ret"])))
        with patched(*binds):
            try:
                if ob["what"] == "files":
                    co = ebd_ipc._InstallWrapper._install_cmd(w)
                    co.send([("/src/a", "a"), ("/src/b", "b")][: ob["n"]])
                else:
                    co = ebd_ipc._InstallWrapper._install_dirs_cmd(w)
                    co.send(["d1", "d2"][: ob["n"]])
            except ebd_ipc.IpcCommandError as e:
                raised = {"code": e.code, "lines": e.msg.count("\n") + 1 if e.msg else 0}
        return {"raised": raised, "calls": len(calls)}

    def prop(self, inp, obs):
        ret = core.lift(inp["ret"])
        r = obs["raised"]
        if r is None:
            return ret == 0
        return z3.And(ret != 0, core.lift(r["code"]) == ret)


class Observer:
    def __init__(self):
        self.out = []

    def write(self, *a, **k):
        self.out.append(a)

    warn = info = error = write

    def flush(self):
        pass


STREAM_MENU = [
    ("Dohtml", "--dest=/usr/share/doc/p/html", ["index.html"]), ("Dohtml", "--dest=/usr/share/doc/p/html", ["-V", "index.html"]), ("Dohtml", "--dest=/usr/share/doc/p/html", ["-r", "-V", "-p", "sub", "index.html"]),
    ("Doins", "--dest=/usr/share/p --insoptions=-m0644", ["a.txt"]), ("Doins", "--dest=/usr/share/p --insoptions=-m0644", ["missing.txt"]), ("Dodir", "--diroptions=-m0755", ["/var/lib/p"]),
    ("Dodoc", "--dest=/usr/share/doc/p", ["a.txt", "index.html"]), ("Doins", "--dest=/usr/share/p --insoptions='-m0644 -p'", ["a.txt"]),
]


class StreamHarness(Harness):
    """real helpers on a scratch image directory: every request of a scripted stream gets exactly one
    single-line reply on the channel (request choice by solver-decided selectors)"""

    def setup(self, eng):
        return {"sel": [eng.int(f"req{i}", 0, len(STREAM_MENU) - 1) for i in range(self.ob["n"])], "nonfatal": eng.bool("nonfatal")}

    def body(self, inp):
        import os
        import shutil
        import tempfile

        sym = core.ENG is not None
        sel = core.fix(inp["sel"]) if sym else inp["sel"]
        nonfatal = core.fix(inp["nonfatal"]) if sym else inp["nonfatal"]
        td = tempfile.mkdtemp(prefix="c32-")
        try:
            work, ed = os.path.join(td, "work"), os.path.join(td, "image") + "/"
            os.makedirs(work)
            os.makedirs(ed)
            for fn in ("index.html", "a.txt"):
                with open(os.path.join(work, fn), "w") as f:
                    f.write("x")
            obsv = Observer()
            op = types.SimpleNamespace(pkg=Pkg(), observer=obsv, ED=ed)
            per_request = []
            for i in sel:
                cls, options, args = STREAM_MENU[i]
                ebd = FakeEbd(["true" if nonfatal else "false", work, "install", options, "\0".join(args)])
                cmd = getattr(ebd_ipc, cls)(op)
                reply = []
                try:
                    cmd(ebd)
                except ebd_ipc.IpcError as e:
                    reply.append(e.ret)
                reply = [str(x) for x in ebd.written] + [str(x) for x in reply]
                per_request.append({"helper": cls, "args": args, "lines": sum(len(r.split("\n")) for r in reply), "replies": len(reply), "status": reply[0].split("\x07")[0] if reply else None})
            return {"requests": per_request}
        finally:
            shutil.rmtree(td, ignore_errors=True)

    def prop(self, inp, obs):
        for r in obs["requests"]:
            if r["replies"] != 1 or r["lines"] != 1:
                return False
            missing = "missing.txt" in r["args"]
            if (r["status"] == "0") == missing:
                return False
        return True


def harness(ob):
    if ob["kind"] == "stream":
        return StreamHarness(ob)
    return InstallHarness(ob) if ob["kind"] == "install" else ReplyHarness(ob)


UNIVERSE = {}


def obligations(tier, seed):
    obs = []
    top = 3 if tier == "quick" else 4
    for kind in ("none", "int", "str", "tuple", "error", "internal"):
        for L in (range(0, top + 1) if kind in ("str", "tuple", "error") else [0]):
            obs.append({"oid": f"reply:{kind}|msglen={L}", "kind": kind, "mlen": L, "max_paths": 200000})
    for what in ("files", "dirs"):
        for n in (1, 2):
            obs.append({"oid": f"install:{what}|n={n}", "kind": "install", "what": what, "n": n})
    for n in (1, 2):
        obs.append({"oid": f"stream:n={n}", "kind": "stream", "n": n, "max_paths": 5000})
    UNIVERSE[tier] = {"shapes": len(obs)}
    return obs
