"""C25 - binary package tarballs round-trip their contents."""
import os

from pkgcore.fs import contents, tar
from props import mergefs as M
from sx import core
from sx.runner import Harness

ID = "C25"
MANIFEST = {
    "technique": "bounded model checking with solver-decided choice (SX engine): the shape of every slot of a contents tree built on a real scratch directory (file / symlink / fifo, hardlink partner or separate file with set-id mode, a name with a space, symlinks to a directory, to a file and dangling, entries listed below a symlinked directory and below a second symlinked directory inside the first, the empty set) and the compressor are symbolic selectors; the engine forks over every feasible combination, runs the real livefs.scan, tar.write_set and tar.generate_contents (add_contents_to_tarfile, fsobj_to_tarinfo, archive_to_fsobj, convert_archive) and compares the entries read back with the ones written",
    "level_text": "Bounded model checking, exhaustive within the bound (3 x 3 x 4 image shapes x listed-through-symlink yes/no (and through a chain of two) x empty/non-empty x two spellings of the bzip2 compressor): every entry comes back with its path, type, mode, ownership, mtime, symlink target and file data; files that shared an inode still share one and no others do; entries listed below a directory symlink come back below its target; an empty set gives an empty archive that reads as an empty set. Selector-only; real code on real files (tarfile/bz2 are C-backed and not modelled).",
    "level_note": "selector-only harness (labelled as such).",
}
META = {
    "modules": ["pkgcore.fs.tar", "pkgcore.fs._tar", "pkgcore.fs.livefs"],
    "functions": ["tar.write_set", "tar.add_contents_to_tarfile", "tar.fsobj_to_tarinfo", "tar.generate_contents", "tar.archive_to_fsobj", "tar.convert_archive"],
    "bounds": {"quick": "menus of props/mergefs.py for the image; 2 compressors", "thorough": "same (the space is swept completely in both tiers)"},
    "outside": ["uncompressed archives (snakeoil.compression has no such handle: write_set(compressor=None) raises KeyError on the pinned tree)", "device nodes (need mknod)", "symlink chains longer than one", "archives produced by other tools"],
    "assumptions": [],
    "selector_only": True,
}

COMP = ["bz2", "bzip2"]  # the two spellings write_set/generate_contents accept; snakeoil offers no uncompressed handle


def describe(cset):
    out = {}
    groups = {}
    for x in cset:
        e = {"type": type(x).__name__, "mode": x.mode, "uid": x.uid, "gid": x.gid}
        if x.is_sym:
            e["target"] = x.target
        else:
            e["mtime"] = int(x.mtime)
        if x.is_reg:
            e["data"] = x.data.bytes_fileobj().read().decode("latin1")
            groups.setdefault((x.dev, x.inode), []).append(x.location)
        out[x.location] = e
    return out, sorted(sorted(g) for g in groups.values() if len(g) > 1)


class TarHarness(Harness):
    def setup(self, eng):
        inp = {"new_f": self.ob["new_f"], "new_g": eng.int("new_g", 0, len(M.NEW_G) - 1), "new_l": self.ob["new_l"], "comp": eng.int("compressor", 0, 1), "empty": eng.bool("empty_set"), "via_link": eng.bool("entry_listed_below_a_symlinked_directory"), "chain": eng.bool("and_below_a_second_symlinked_directory_inside_the_first") if M.NEW_L[self.ob["new_l"]] == "sym-to-dir" else False}
        return inp

    def body(self, inp):
        c = core.fix(inp) if core.ENG is not None else inp
        td = M.scratch()
        try:
            img = os.path.join(td, "img")
            M.build_image(img, c)
            # dot-named entries at the root, and a hardlink group of empty files
            for rel, data in ((".keep", ""), (".config/x", "cfg"), ("s/e1", "")):
                os.makedirs(os.path.dirname(os.path.join(img, rel)), exist_ok=True)
                with open(os.path.join(img, rel), "w") as fh:
                    fh.write(data)
                os.utime(os.path.join(img, rel), (M.MT, M.MT))
            os.link(os.path.join(img, "s/e1"), os.path.join(img, "s/e2"))
            cset = M.scan_image(img)
            want_extra = {}
            if c["empty"]:
                cset = contents.contentsSet()
            elif c["via_link"] and M.NEW_L[c["new_l"]] == "sym-to-dir":
                # an entry recorded through the symlink /l -> d, as a package built on a symlinked layout records it
                src = cset["/s/x y"]
                cset.add(src.change_attributes(location="/l/via"))
                want_extra["/d/via"] = "/l/via"
                if c.get("chain"):
                    # ... and /l/m -> e is itself a symlinked directory with an entry recorded through both: lands in /d/e
                    cset.add(cset["/l"].change_attributes(location="/l/m", target="e"))
                    cset.add(cset["/d"].change_attributes(location="/d/e"))
                    cset.add(src.change_attributes(location="/l/m/deep"))
                    want_extra["/d/m"] = "/l/m"
                    want_extra["/d/e/deep"] = "/l/m/deep"
            want, want_groups = describe(cset)
            for new, old in want_extra.items():
                want[new] = want.pop(old)
            path = os.path.join(td, "out.tar")
            comp = COMP[c["comp"]]
            exc = None
            try:
                tar.write_set(cset, path, compressor=comp)
                back = tar.generate_contents(path, compressor=comp)
                got, got_groups = describe(back)
                if c["empty"]:
                    # an archive without a single header (a compressed empty stream) is an empty set too
                    import bz2

                    with open(path, "wb") as fh:
                        fh.write(bz2.compress(b""))
                    if list(tar.generate_contents(path, compressor=comp)):
                        got["<header-less archive>"] = {"type": "not empty"}
            except Exception as e:
                exc = f"{type(e).__name__}: {e}".replace(td, "<scratch>")
                got, got_groups = None, None
        finally:
            M.cleanup(td)
        problems = []
        if exc:
            problems.append(f"raised {exc}")
        else:
            for loc in sorted(set(want) | set(got)):
                if loc not in got:
                    problems.append(f"{loc}: lost")
                elif loc not in want:
                    problems.append(f"{loc}: appeared")
                elif got[loc] != want[loc]:
                    diff = sorted(k for k in set(got[loc]) | set(want[loc]) if got[loc].get(k) != want[loc].get(k))
                    problems.append(f"{loc}: differs in {diff}")
            wg = [[want_extra_inv(l, want_extra) for l in g] for g in want_groups]
            if sorted(sorted(g) for g in wg) != got_groups:
                problems.append(f"hardlink groups {got_groups} instead of {wg}")
        return {"shape": {"new_f": M.NEW_F[c["new_f"]], "new_g": M.NEW_G[c["new_g"]], "new_l": M.NEW_L[c["new_l"]]}, "compressor": COMP[c["comp"]], "empty": c["empty"], "via_link": c["via_link"], "chain": bool(c.get("chain")), "problems": problems}

    def prop(self, inp, obs):
        return not obs["problems"]


def want_extra_inv(loc, want_extra):
    for new, old in want_extra.items():
        if loc == old:
            return new
    return loc


def harness(ob):
    return TarHarness(ob)


UNIVERSE = {}


def obligations(tier, seed):
    obs = [{"oid": f"/d/f={M.NEW_F[k]}|/l={M.NEW_L[j]}", "new_f": k, "new_l": j, "max_paths": 100000, "max_s": 2400} for k in range(len(M.NEW_F)) for j in range(len(M.NEW_L))]
    UNIVERSE[tier] = {"obligations": len(obs)}
    return obs
