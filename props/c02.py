"""C02 - equality, ordering and hashing of package versions and atoms agree."""
import itertools
import random

import z3

from pkgcore.ebuild import atom as real_atom
from pkgcore.ebuild import cpv as real_cpv
from sx import core, shims
from sx.core import SymBool, SymStr, sstr
from sx.runner import Harness

from . import atoms, common, shadow
from .common import SymVersion, shape, shape_str

ID = "C02"
MANIFEST = {
    "technique": "symbolic execution (SX proxies + z3) of the real CPV/atom constructors (AST-lowered shadow of cpv.py/atom.py compiled from /repo/src on every run) on version texts with symbolic digits, then of the real __eq__/__ne__/__lt__/__le__/__gt__/__ge__/__hash__ (atom.__cmp__, generic attribute equality, CPV comparisons, ver_cmp) on the resulting pair; hash() modelled as injective on its argument; the consistency laws are asserted on every path",
    "level_text": "Bounded symbolic model checking: for every enumerated pair of version shapes (spellings that can denote equal versions included) and every enumerated pair of atom attribute configurations, the solver proves that no digit/letter assignment makes two objects equal with different hash keys, equal yet ordered, unequal yet unordered, or the six operators mutually inconsistent. Bounded by the shape grammar and the attribute menus.",
    "level_note": "Trusted: SX engine, AST lowering (f-strings/join/in), SymRegex, shims (int/ord/str/isinstance/len/hash/bool), hash modelled as injective on its argument (collisions outside the claim; equal keys => equal hashes is exact). Objects are built by the real constructors from symbolic text; path models and counterexamples are replayed natively on the unmodified classes with the real hash().",
}
META = {
    "modules": ["pkgcore.ebuild.cpv", "pkgcore.ebuild.atom", "pkgcore.ebuild.restricts"],
    "functions": [
        "cpv.CPV.__init__ (shadow-lowered)", "cpv.CPV.__hash__/__eq__/__ne__/__lt__/__le__/__gt__/__ge__", "cpv.ver_cmp", "cpv.Revision.*",
        "atom.atom.__init__ (shadow-lowered)", "atom.atom.__cmp__ + injected rich comparisons", "atom.atom.__hash__", "snakeoil GenericEquality.__eq__/__ne__ over atom.__attr_comparison__",
    ],
    "shims": ["shadow modules: int/ord/str/isinstance/len/hash/bool", "cpv regexes -> SymRegex", "atom.valid_*_chars -> SymCharSet", "eapi._valid_use_flag -> SymRegex"],
    "bounds": {
        "quick": "CPV pairs: all ordered pairs of 22 version shapes chosen so that equal-under-different-spelling is reachable (1.0/1.00, _alpha/_alpha0, none/-r0/-r00/-r01), digits and letters symbolic; key mismatch pairs. atom pairs: attribute configurations (operator, blocker kind, slot, sub-slot, slot operator, repo, USE lists incl. reordered) differing in <=1 attribute x 3 version shape pairs",
        "thorough": "all pairs of the 40-shape core for CPVs; atom attribute pairs differing in <=2 attributes x 8 shape pairs",
    },
    "outside": ["hash collisions (hash modelled injective)", "objects of other types", "versionless vs versioned CPV comparisons", "negate_vers"],
    "assumptions": ["hash(x) == hash(y) is decided as key(x) == key(y) where key is the argument pkgcore passes to hash()"],
    "selector_only": False,
}


def _hk(o):
    """hash key observation: SymHash under SX, int natively"""
    return o.__hash__()


def _hash_eq(h1, h2):
    if isinstance(h1, shims.SymHash) or isinstance(h2, shims.SymHash):
        k1 = h1.key if isinstance(h1, shims.SymHash) else None
        k2 = h2.key if isinstance(h2, shims.SymHash) else None
        if k1 is None or k2 is None:
            raise core.Unsupported("comparison of a symbolic hash key with a concrete hash value")
        return SymBool(core.eq_term(k1, k2))
    return h1 == h2


class PairHarness(Harness):
    """kind=cpv: two VersionedCPVs; kind=atom: two atoms (attribute configs concrete, versions symbolic)"""

    def shims(self):
        return shadow.bindings()

    def setup(self, eng):
        ob = self.ob
        inp = {}
        self.V = {}
        for n in ("x", "y"):
            sh = ob[n].get("ver")
            if sh is not None:
                self.V[n] = SymVersion(eng, n, sh)
                inp[n] = self.V[n].inp()
        return inp

    def _text(self, n, inp):
        spec = self.ob[n]
        v = (inp[n]["ver"], inp[n]["rev"]) if n in inp else None
        if self.ob["kind"] == "cpv":
            return spec.get("key", "cat/pkg") + "-" + v[0] + ("-r" + v[1] if v[1] else "")
        return atoms.atom_text(spec, version=v)

    def body(self, inp):
        kind = self.ob["kind"]
        sym = core.ENG is not None
        if sym:
            satom, scpv = shadow.get()
        else:
            satom, scpv = real_atom, real_cpv
        objs = []
        old = shims.ALWAYS_SYMHASH[0]
        shims.ALWAYS_SYMHASH[0] = sym
        try:
            with core.building():
                for n in ("x", "y"):
                    t = self._text(n, inp)
                    if kind == "cpv":
                        objs.append(scpv.VersionedCPV(t))
                    else:
                        objs.append(satom.atom(t))
            x, y = objs
            hx, hy = (_hk(x), _hk(y))
            heq = _hash_eq(hx, hy) if sym else hash(x) == hash(y)
        finally:
            shims.ALWAYS_SYMHASH[0] = old
        return {"eq": x == y, "ne": x != y, "lt": x < y, "le": x <= y, "gt": x > y, "ge": x >= y, "heq": heq,
                "eq_r": y == x, "lt_r": y < x, "gt_r": y > x}

    def prop(self, inp, obs):
        o = {k: core.unwrap_bool(v) for k, v in obs.items()}
        return z3.And(
            z3.Implies(o["eq"], z3.And(o["heq"], z3.Not(o["lt"]), z3.Not(o["gt"]), o["le"], o["ge"])),
            z3.Implies(z3.Not(o["eq"]), z3.Xor(o["lt"], o["gt"])),
            o["ne"] == z3.Not(o["eq"]),
            o["le"] == z3.Or(o["lt"], o["eq"]),
            o["ge"] == z3.Or(o["gt"], o["eq"]),
            o["eq"] == o["eq_r"],
            o["lt"] == o["gt_r"],
            o["gt"] == o["lt_r"],
        )

    def region(self, name, inp):
        ob = self.ob
        if name == "cpv-hash-of-spelling":
            # equal versions whose normalised text differs: only the hash clause is affected
            if ob["kind"] != "cpv":
                return False
            return common.ref_cmp(self.V["x"], self.V["y"]) == 0
        if name.startswith("atom-"):
            if ob["kind"] != "atom":
                return False
            x, y = ob["x"], ob["y"]
            if name == "atom-equal-versions-different-text":
                if "x" in self.V and "y" in self.V:
                    return common.ref_cmp(self.V["x"], self.V["y"]) == 0
                return False
            diff = {k for k in set(x) | set(y) if x.get(k) != y.get(k) and k != "ver"}
            if name == "atom-subslot-slotop-ignored-by-ordering":
                return bool(diff & {"subslot", "slotop"})
            if name == "atom-blocker-strength":
                return {x.get("blk", ""), y.get("blk", "")} == {"!", "!!"}
            if name == "atom-use-order-hash":
                return "use" in diff and sorted(x.get("use") or ()) == sorted(y.get("use") or ())
        raise KeyError(name)


def harness(ob):
    return PairHarness(ob)


SPELL_SHAPES = [
    shape([1]), shape([2]), shape([1, 1]), shape([1, 2]), shape([1, 3]), shape([2, 2]),
    shape([1], letter=True), shape([1, 2], letter=True),
    shape([1], suf=[("alpha", 0)]), shape([1], suf=[("alpha", 1)]), shape([1], suf=[("alpha", 2)]), shape([1], suf=[("p", 0)]), shape([1], suf=[("p", 1)]),
    shape([1], suf=[("pre", 1)]), shape([1, 2], suf=[("rc", 0)]), shape([1, 2], suf=[("rc", 1)]),
    shape([1], rev=1), shape([1], rev=2), shape([1, 2], rev=1), shape([1, 2], rev=2), shape([1], suf=[("p", 1)], rev=1), shape([1], letter=True, rev=1),
]

ATTR_MENU = {
    "op": ["", "<", "<=", "=", "~", ">=", ">", "=*"],
    "blk": ["", "!", "!!"],
    "slot": [None, "0", "1"],
    "subslot": [None, "a", "b"],
    "slotop": [None, "=", "*"],
    "repo": [None, "x", "y"],
    "use": [None, ["a"], ["a", "b"], ["b", "a"], ["-a"], ["a(+)"], ["a?"], ["!a?", "b"]],
}
UNIVERSE = {}


def _valid(spec):
    if spec.get("subslot") and not spec.get("slot"):
        return False
    if spec.get("slotop") == "*" and spec.get("slot"):
        return False
    if spec.get("slotop") == "=" and spec.get("subslot") and False:
        return False
    return True


def _clean(spec):
    return {k: v for k, v in spec.items() if v not in (None, "")} | {"op": spec.get("op", "")}


def obligations(tier, seed):
    rng = random.Random(seed)
    obs = []
    shapes = SPELL_SHAPES if tier == "quick" else common.CORE_SHAPES + [s for s in SPELL_SHAPES if s not in common.CORE_SHAPES]
    for a, b in itertools.product(shapes, repeat=2):
        obs.append({"oid": f"cpv:{shape_str(a)}|{shape_str(b)}", "kind": "cpv", "x": {"ver": a}, "y": {"ver": b}})
    for kx, ky in (("cat/pkg", "cat/pkh"), ("cat/pkg", "cau/pkg"), ("cat/pkg", "cat/pk"), ("dev/zlib", "dev-lang/python"), ("a-b/c", "a/c")):
        for a in shapes[:3]:
            obs.append({"oid": f"cpvkey:{kx}|{ky}|{shape_str(a)}", "kind": "cpv", "x": {"ver": a, "key": kx}, "y": {"ver": a, "key": ky}})
            obs.append({"oid": f"cpvkey:{ky}|{kx}|{shape_str(a)}", "kind": "cpv", "x": {"ver": a, "key": ky}, "y": {"ver": a, "key": kx}})
    # atoms
    vpairs = [(shape([1, 1]), shape([1, 2])), (shape([1]), shape([1], rev=1)), (shape([1], suf=[("alpha", 0)]), shape([1], suf=[("alpha", 1)])),
              (shape([1, 2]), shape([1, 2])), (shape([2]), shape([1, 1])), (shape([1], letter=True), shape([1])), (shape([1], rev=1), shape([1], rev=2)), (shape([1, 2], suf=[("p", 0)]), shape([1, 2]))]
    if tier == "quick":
        vpairs = vpairs[:3]
    bases = []
    for op in ATTR_MENU["op"]:
        for extra in ({}, {"slot": "0"}, {"slot": "0", "subslot": "a"}, {"slot": "0", "slotop": "="}, {"repo": "x"}, {"use": ["a", "b"]}, {"blk": "!"}, {"slotop": "*"}, {"slot": "1", "subslot": "a", "use": ["a"], "repo": "x", "blk": "!!"}):
            bases.append(dict(extra, op=op))
    seen = set()

    def add(x, y, va, vb):
        x, y = _clean(x), _clean(y)
        if not (_valid(x) and _valid(y)):
            return
        if x["op"]:
            x = dict(x, ver=va if x["op"] != "~" else dict(va, rev=None))
        if y["op"]:
            y = dict(y, ver=vb if y["op"] != "~" else dict(vb, rev=None))
        oid = "atom:%s|%s" % (
            atoms.atom_text(x, version=(shape_str(x["ver"]).split("-r")[0], (shape_str(x["ver"]).split("-r") + [""])[1]) if x["op"] else None),
            atoms.atom_text(y, version=(shape_str(y["ver"]).split("-r")[0], (shape_str(y["ver"]).split("-r") + [""])[1]) if y["op"] else None),
        )
        if oid in seen:
            return
        seen.add(oid)
        obs.append({"oid": oid, "kind": "atom", "x": x, "y": y})

    for b in bases:
        for va, vb in vpairs:
            add(b, b, va, vb)
            for attr, menu in ATTR_MENU.items():
                for v in menu:
                    if b.get(attr) == v:
                        continue
                    y = dict(b)
                    y[attr] = v
                    add(b, y, va, vb)
                    if tier == "thorough":
                        attr2 = rng.choice(list(ATTR_MENU))
                        y2 = dict(y)
                        y2[attr2] = rng.choice(ATTR_MENU[attr2])
                        add(b, y2, va, vb)
    for kx, ky in (("cat/pkg", "cat/pkh"), ("cat/pkg", "cau/pkg"), ("cat/pkg", "cat/pk"), ("dev/zlib", "dev-lang/python"), ("a-b/c", "a/c"), ("x11/a", "x11.misc/a"), ("a+/b", "a/b")):
        for b in bases[::7]:
            for va, vb in vpairs[:2]:
                add(dict(b, key=kx), dict(b, key=ky), va, vb)
                add(dict(b, key=ky), dict(b, key=kx), va, vb)
    UNIVERSE[tier] = {"cpv_shape_pairs": len(shapes) ** 2, "atom_pairs": len(seen)}
    return obs
