"""C01 - version comparison follows the PMS algorithm and is a total preorder."""
import collections
import itertools
import random

import z3

from pkgcore.ebuild import cpv, restricts
from sx import core
from sx.core import SymBool, SymInt, SymStr, sstr
from sx.runner import Harness
from sx.shims import SymRegex, builtin_bindings, sym_isinstance, sym_str

from . import common
from .common import CORE_SHAPES, SymVersion, ref_cmp, shape_str, sign

ID = "C01"
MANIFEST = {
    "technique": "symbolic execution of the real ver_cmp/CPV operators/VersionMatch.match (SX proxies + z3): concrete version shapes, all digits and letters symbolic; differential against a PMS comparator written as a z3 term, plus direct transitivity/antisymmetry/reflexivity on triples",
    "level_text": "Bounded symbolic model checking of the real comparison code: for every pair of version shapes in the bound the solver proves, on every feasible path, that no digit/letter assignment makes ver_cmp, the six CPV operators or the six version-operator restrictions disagree with the PMS algorithm; the total-preorder laws are additionally proved on shape triples directly on the real function. Bounded (shape grammar), not a proof.",
    "level_note": "Trusted: SX engine, builtin shims (int/ord/isinstance in cpv, str/isinstance in collections for UserString), SymRegex for suffix_regexp, my PMS reference comparator. Each obligation replays path models natively on the unshimmed code (path-faithfulness) and every counterexample is replayed natively before being reported.",
}
META = {
    "modules": ["pkgcore.ebuild.cpv", "pkgcore.ebuild.restricts"],
    "functions": [
        "pkgcore.ebuild.cpv.ver_cmp",
        "pkgcore.ebuild.cpv.Revision.__init__/__eq__/__lt__/__le__/__gt__/__ge__",
        "pkgcore.ebuild.cpv.CPV.__eq__/__ne__/__lt__/__le__/__gt__/__ge__",
        "pkgcore.ebuild.restricts._VersionMatch.__init__/match",
        "snakeoil.compatibility.cmp",
    ],
    "shims": ["cpv.int", "cpv.ord", "cpv.isinstance", "cpv.suffix_regexp -> SymRegex", "collections.str/isinstance (UserString base of Revision)"],
    "bounds": {
        "quick": "versions from the 40-shape core of V(2,3,1,2) (<=2 numeric components x <=3 digits, optional letter, <=1 suffix with <=2 digits, revision <=2 digits): all 1600 ordered pairs, every digit/letter symbolic; transitivity of the real function on all triples of 7 shapes of V(2,2,1,1)",
        "thorough": "all pairs of the core + seeded sample of pairs from V(3,3,2,2); transitivity on triples of 12 shapes",
    },
    "outside": ["numeric components > 3 digits", "> 3 components", "> 2 suffixes", "non-ASCII digits/letters", "versionless CPVs"],
    "assumptions": [
        "SX engine, builtin shims and SymRegex are trusted; each obligation replays path models natively against the unshimmed code",
        "reference comparator common.ref_cmp is my reading of PMS Algorithms 3.1-3.7",
    ],
    "selector_only": False,
}

OPS = ("<", "<=", "=", ">=", ">", "~")


def _rev(r):
    return cpv.Revision(r)


def _mkcpv(ver, rev):
    """a VersionedCPV with state constructed directly (parsing is C03's subject)"""
    o = cpv.CPV.__new__(cpv.VersionedCPV)
    sf = object.__setattr__
    sf(o, "category", "cat")
    sf(o, "package", "pkg")
    sf(o, "key", "cat/pkg")
    sf(o, "version", ver)
    sf(o, "revision", _rev(rev))
    if rev:
        sf(o, "fullver", ver + "-r" + rev)
        sf(o, "cpvstr", "cat/pkg-" + ver + "-r" + rev)
    else:
        sf(o, "fullver", ver)
        sf(o, "cpvstr", "cat/pkg-" + ver)
    return o


def _shims():
    return builtin_bindings(cpv, ("int", "ord", "isinstance")) + [
        (cpv, "suffix_regexp", SymRegex(cpv.suffix_regexp)),
        (collections, "str", sym_str),
        (collections, "isinstance", sym_isinstance),
    ]


class PairHarness(Harness):
    """differential: real ver_cmp / CPV operators / VersionMatch vs the PMS reference"""

    def shims(self):
        return _shims()

    def setup(self, eng):
        self.A = SymVersion(eng, "a", self.ob["a"])
        self.B = SymVersion(eng, "b", self.ob["b"])
        return {"a": self.A.inp(), "b": self.B.inp()}

    def body(self, inp):
        a, b = inp["a"], inp["b"]
        ra, rb = _rev(a["rev"]), _rev(b["rev"])
        obs = {"cmp": sign(cpv.ver_cmp(a["ver"], ra, b["ver"], rb))}
        if self.ob.get("ops", True):
            x, y = _mkcpv(a["ver"], a["rev"]), _mkcpv(b["ver"], b["rev"])
            obs["cpv"] = [x == y, x != y, x < y, x <= y, x > y, x >= y]
            with core.building():
                # the way atoms build it (revision object always given) ...
                ms = [restricts.VersionMatch(op, b["ver"], rev=rb) for op in OPS]
                # ... and the way parserestrict / glsa build it when there is no revision (rev=None)
                mn = [restricts.VersionMatch(op, b["ver"]) for op in OPS] if not b["rev"] else []
            obs["vm"] = [m.match(x) for m in ms]
            obs["vmN"] = [m.match(x) for m in mn]
        return obs

    def _ref(self):
        return ref_cmp(self.A, self.B), ref_cmp(self.A, self.B, with_rev=False)

    def prop(self, inp, obs):
        r, r_norev = self._ref()
        conds = [core.eq_term(obs["cmp"], r)]
        if "cpv" in obs:
            exp = [r == 0, r != 0, r < 0, r <= 0, r > 0, r >= 0]
            conds += [core.eq_term(o, e) for o, e in zip(obs["cpv"], exp)]
            expvm = [r < 0, r <= 0, r == 0, r >= 0, r > 0, r_norev == 0]
            conds += [core.eq_term(o, e) for o, e in zip(obs["vm"], expvm)]
            conds += [core.eq_term(o, e) for o, e in zip(obs["vmN"], expvm)]
        return z3.And(conds)

    def expected(self, inp, obs):
        r, rn = self._ref()
        return {"cmp": SymInt(r)}

    def region(self, name, inp):
        if name == "first-component-leading-zero":
            # either first component has more than one digit and starts with '0'
            conds = []
            for V in (self.A, self.B):
                if len(V.comps[0]) > 1:
                    conds.append(V.comps[0][0] == 48)
            return z3.Or(conds) if conds else False
        raise KeyError(name)


class TripleHarness(Harness):
    """direct transitivity / antisymmetry / reflexivity of the real function"""

    def shims(self):
        return _shims()

    def setup(self, eng):
        self.V = [SymVersion(eng, n, self.ob[n]) for n in "abc"]
        return {n: v.inp() for n, v in zip("abc", self.V)}

    def body(self, inp):
        def c(x, y):
            return sign(cpv.ver_cmp(inp[x]["ver"], _rev(inp[x]["rev"]), inp[y]["ver"], _rev(inp[y]["rev"])))

        return {"ab": c("a", "b"), "bc": c("b", "c"), "ac": c("a", "c"), "ba": c("b", "a"), "aa": c("a", "a")}

    def prop(self, inp, obs):
        L = {k: core.lift(v) for k, v in obs.items()}
        return z3.And(
            L["aa"] == 0,
            L["ab"] == -L["ba"],
            z3.Implies(z3.And(L["ab"] <= 0, L["bc"] <= 0), L["ac"] <= 0),
            z3.Implies(z3.And(L["ab"] <= 0, L["bc"] <= 0, z3.Or(L["ab"] < 0, L["bc"] < 0)), L["ac"] < 0),
        )

    def region(self, name, inp):
        if name == "first-component-leading-zero":
            conds = [V.comps[0][0] == 48 for V in self.V if len(V.comps[0]) > 1]
            return z3.Or(conds) if conds else False
        raise KeyError(name)


def harness(ob):
    return TripleHarness(ob) if ob["kind"] == "triple" else PairHarness(ob)


TRIPLE_SHAPES = [
    common.shape([1]), common.shape([2]), common.shape([1, 1]), common.shape([1, 2]), common.shape([1], letter=True),
    common.shape([1], suf=[("p", 1)]), common.shape([1], rev=1),
    common.shape([2, 2]), common.shape([1], suf=[("alpha", 0)]), common.shape([1, 1], letter=True), common.shape([2], rev=1),
    common.shape([1, 2], suf=[("rc", 1)]),
]

UNIVERSE = {}


def obligations(tier, seed):
    obs = []
    for a, b in itertools.product(CORE_SHAPES, repeat=2):
        obs.append({"oid": f"pair:{shape_str(a)}|{shape_str(b)}", "kind": "pair", "a": a, "b": b})
    ts = TRIPLE_SHAPES[:7] if tier == "quick" else TRIPLE_SHAPES
    for a, b, c in itertools.product(ts, repeat=3):
        obs.append({"oid": f"triple:{shape_str(a)}|{shape_str(b)}|{shape_str(c)}", "kind": "triple", "a": a, "b": b, "c": c, "max_paths": 20000})
    UNIVERSE[tier] = {"core_pairs": len(CORE_SHAPES) ** 2, "triples": len(ts) ** 3}
    if tier == "thorough":
        rng = random.Random(seed)
        univ = common.shapes_V(3, 3, 2, 2)
        UNIVERSE[tier]["V(3,3,2,2)_shapes"] = len(univ)
        n = int(__import__("os").environ.get("VERIF_C01_SAMPLE", "12000"))
        for i in range(n):
            a, b = rng.choice(univ), rng.choice(univ)
            if rng.random() < 0.5:
                # bias toward near-identical shapes, where comparison goes deep
                b = dict(a)
                k = rng.choice(["comps", "letter", "suf", "rev"])
                b[k] = rng.choice(univ)[k]
            obs.append({"oid": f"pairS{i}:{shape_str(a)}|{shape_str(b)}", "kind": "pair", "a": a, "b": b, "ops": i % 4 == 0})
        UNIVERSE[tier]["sampled_pairs"] = n
    return obs
