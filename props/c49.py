"""C49 - generated metadata accumulates eclass values as PMS requires."""
import os
import shutil
import tempfile

from pkgcore.ebuild import repo_objs, repository
from sx import core
from sx.runner import Harness

ID = "C49"
MANIFEST = {
    "technique": "bounded model checking with solver-decided choice (SX engine): the EAPI, the inherit graph of up to three eclasses (none, single, nested, diamond, the same eclass reached twice, an eclass inherited from the middle of another), whether the ebuild assigns its variables before or after the inherit line or not at all, and which phase functions the ebuild and the eclasses define or export are symbolic selectors; the engine forks over every feasible combination, writes the ebuild and the eclasses into a scratch repository, has the real ebuild daemon (bash) source it through repository.UnconfiguredTree with no cache, and compares the package metadata with a reference evaluator of the PMS accumulation rules",
    "level_text": "Bounded model checking, exhaustive within the bound (EAPI 6/7/8 x 6 inherit graphs x 3 placements of the ebuild's own assignments x 2 x 2 phase-function choices): IUSE, REQUIRED_USE and every dependency class the EAPI knows (and PROPERTIES and RESTRICT in EAPI 8) hold the ebuild's own tokens together with those of every directly or indirectly inherited eclass; DESCRIPTION, SLOT, HOMEPAGE, LICENSE, KEYWORDS (and PROPERTIES / RESTRICT before EAPI 8) hold the value of the last assignment executed; INHERITED names exactly the eclasses sourced; DEFINED_PHASES lists exactly the phase functions defined by the ebuild or exported by its eclasses. Selector-only; the real daemon does the sourcing.",
    "level_note": "selector-only harness (labelled as such). Accumulated values are compared as token sets (PMS leaves order and repetition open).",
}
META = {
    "modules": ["pkgcore.ebuild.ebuild_src", "pkgcore.ebuild.processor", "pkgcore.ebuild.repository", "data/lib/pkgcore/ebd (bash)"],
    "functions": ["ebd inherit() accumulation (ebuild-default-functions.bash)", "__load_ebuild (ebuild.bash)", "ebuild_src.package_factory._update_metadata/_get_metadata", "processor.EbuildProcessor.get_keys"],
    "stubs": [],
    "bounds": {"quick": "menus above", "thorough": "same (the space is swept completely in both tiers)"},
    "outside": ["EAPIs below 6", "more than three eclasses", "eclasses that unset variables or assign with +=", "the metadata cache (C27/C48)"],
    "assumptions": ["the sandbox's /bin/bash runs the bundled daemon (EAPI 9 is disabled by the pinned tree on bash < 5.3; it is not used)"],
    "selector_only": True,
}

EAPIS = ["6", "7", "8"]
SHAPES = ["none", "single", "nested", "diamond", "twice", "inherit-in-the-middle"]
PLACE = ["before", "after", "unset"]
ACC = ["IUSE", "REQUIRED_USE", "DEPEND", "RDEPEND", "PDEPEND", "BDEPEND", "IDEPEND"]
FINAL = ["DESCRIPTION", "SLOT", "HOMEPAGE", "LICENSE", "KEYWORDS"]


def eclass_text(name, inherits, middle, exports):
    """the body of an eclass and, alongside, the ordered events executing it causes"""
    assign = [
        f'IUSE="{name}_use"', f'REQUIRED_USE="{name}_use"', f'DEPEND="dev/{name}"', f'RDEPEND="run/{name}"', f'PDEPEND="post/{name}"', f'BDEPEND="host/{name}"', f'IDEPEND="inst/{name}"',
        f'PROPERTIES="{"live" if name == "a" else "interactive"}"', f'RESTRICT="{"test" if name == "a" else "strip"}"', f'DESCRIPTION="from {name}"', f'LICENSE="L{name}"',
    ]
    lines = []
    if inherits and not middle:
        lines.append("inherit " + " ".join(inherits))
    half = len(assign) // 2
    lines += assign[:half]
    if inherits and middle:
        lines.append("inherit " + " ".join(inherits))
    lines += assign[half:]
    lines.append(f"{name}_helper() {{ :; }}")
    if exports:
        lines.append(f"{name}_src_compile() {{ :; }}")
        lines.append("EXPORT_FUNCTIONS src_compile")
    return "\n".join(lines) + "\n"


def plan(shape):
    """eclass name -> (inherits, inherit-in-the-middle); and the ebuild's inherit line"""
    if shape == "none":
        return {}, []
    if shape == "single":
        return {"a": ([], False)}, ["a"]
    if shape == "nested":
        return {"a": ([], False), "b": (["a"], False)}, ["b"]
    if shape == "diamond":
        return {"a": ([], False), "b": (["a"], False), "c": (["a"], False)}, ["b", "c"]
    if shape == "twice":
        return {"a": ([], False), "b": (["a"], False)}, ["a", "b"]
    return {"a": ([], False), "b": (["a"], True)}, ["b"]


def events(ecl, order):
    """execution order of eclass bodies as a list of (variable, value) assignments, depth first"""
    out = []

    def run(name):
        inh, middle = ecl[name]
        assigns = [("IUSE", f"{name}_use"), ("REQUIRED_USE", f"{name}_use"), ("DEPEND", f"dev/{name}"), ("RDEPEND", f"run/{name}"), ("PDEPEND", f"post/{name}"), ("BDEPEND", f"host/{name}"), ("IDEPEND", f"inst/{name}"),
                   ("PROPERTIES", "live" if name == "a" else "interactive"), ("RESTRICT", "test" if name == "a" else "strip"), ("DESCRIPTION", f"from {name}"), ("LICENSE", f"L{name}")]
        half = len(assigns) // 2
        if inh and not middle:
            for i in inh:
                run(i)
        out.extend((name, k, v) for k, v in assigns[:half])
        if inh and middle:
            for i in inh:
                run(i)
        out.extend((name, k, v) for k, v in assigns[half:])

    for n in order:
        run(n)
    return out


OWN = {"IUSE": "own_use", "REQUIRED_USE": "own_use", "DEPEND": "dev/own", "RDEPEND": "run/own", "PDEPEND": "post/own", "BDEPEND": "host/own", "IDEPEND": "inst/own", "PROPERTIES": "interactive", "RESTRICT": "mirror",
       "DESCRIPTION": "own description", "LICENSE": "Lown"}


class MetadataHarness(Harness):
    def setup(self, eng):
        return {"eapi": self.ob["eapi"], "shape": eng.int("inherit_graph", 0, len(SHAPES) - 1), "place": eng.int("own_assignments", 0, len(PLACE) - 1), "own_phase": eng.bool("ebuild_defines_pkg_setup"), "export": eng.bool("eclass_a_exports_src_compile")}

    def body(self, inp):
        c = core.fix(inp) if core.ENG is not None else inp
        eapi, shape, place = EAPIS[c["eapi"]], SHAPES[c["shape"]], PLACE[c["place"]]
        ecl, order = plan(shape)
        td = os.path.realpath(tempfile.mkdtemp(prefix="c49-"))
        try:
            repo = os.path.join(td, "repo")
            for d in ("profiles", "eclass", "metadata", "cat/pkg"):
                os.makedirs(os.path.join(repo, d))
            open(os.path.join(repo, "profiles/repo_name"), "w").write("c49\n")
            open(os.path.join(repo, "profiles/categories"), "w").write("cat\n")
            open(os.path.join(repo, "metadata/layout.conf"), "w").write("masters =\n")
            for name, (inh, middle) in ecl.items():
                open(os.path.join(repo, "eclass", name + ".eclass"), "w").write(eclass_text(name, inh, middle, c["export"] and name == "a"))
            own = "".join(f'{k}="{v}"\n' for k, v in OWN.items())
            lines = [f"EAPI={eapi}\n", 'SLOT="0"\n', 'KEYWORDS="~amd64"\n', 'HOMEPAGE="https://example.org/own"\n']
            if place == "before":
                lines.append(own)
            if order:
                lines.append("inherit " + " ".join(order) + "\n")
            if place == "after":
                lines.append(own)
            if c["own_phase"]:
                lines.append("pkg_setup() { :; }\n")
            open(os.path.join(repo, "cat/pkg/pkg-1.ebuild"), "w").write("".join(lines))
            # a package of an older EAPI goes through the same daemon first
            os.makedirs(os.path.join(repo, "cat/old"))
            open(os.path.join(repo, "cat/old/old-1.ebuild"), "w").write('EAPI=5\nSLOT="0"\nDESCRIPTION="older"\nDEPEND="dev/older"\n')
            tree = repository.UnconfiguredTree(repo, repo_config=repo_objs.RepoConfig(repo))
            pkgs = {x.cpvstr: x for x in tree}
            if sorted(pkgs) != ["cat/old-1", "cat/pkg-1"]:
                return {"problems": [f"the repository lists {sorted(pkgs)}"], "eapi": eapi, "shape": shape, "place": place}
            older = pkgs["cat/old-1"]
            older_ok = str(older.depend) == "dev/older" and older.description == "older"
            p = pkgs["cat/pkg-1"]
            toks = lambda x: sorted(set(str(x).split()))  # token sets: PMS leaves repetition open
            got = {
                "IUSE": sorted(p.iuse), "REQUIRED_USE": toks(p.required_use), "DEPEND": toks(p.depend), "RDEPEND": toks(p.rdepend), "PDEPEND": toks(p.pdepend), "BDEPEND": toks(p.bdepend), "IDEPEND": toks(p.idepend),
                "PROPERTIES": toks(p.properties), "RESTRICT": toks(p.restrict), "DESCRIPTION": p.description, "LICENSE": toks(p.license), "SLOT": p.slot, "KEYWORDS": sorted(p.keywords), "HOMEPAGE": sorted(p.homepage),
                "INHERITED": sorted(p.inherited), "DEFINED_PHASES": sorted(p.defined_phases),
            }
        finally:
            shutil.rmtree(td, ignore_errors=True)
        # ---- the reference
        ev = events(ecl, order)
        acc = [k for k in ACC if not (k == "BDEPEND" and int(eapi) < 7) and not (k == "IDEPEND" and int(eapi) < 8)]
        if int(eapi) >= 8:
            acc += ["PROPERTIES", "RESTRICT"]
        want = {}
        for k in OWN:
            vals = [v for _, kk, v in ev if kk == k]
            if k in acc:
                want[k] = sorted(set(vals) | ({OWN[k]} if place != "unset" else set()))
            elif k in ("BDEPEND", "IDEPEND"):
                want[k] = []  # not a metadata key of this EAPI
            else:
                # the value of the last assignment executed
                seq = ([OWN[k]] if place == "before" else []) + vals + ([OWN[k]] if place == "after" else [])
                last = seq[-1] if seq else ""
                want[k] = sorted(last.split()) if k in ("PROPERTIES", "RESTRICT", "LICENSE") else last
        want.update({"SLOT": "0", "KEYWORDS": ["~amd64"], "HOMEPAGE": ["https://example.org/own"], "INHERITED": sorted({n for n, _, _ in ev}),
                     "DEFINED_PHASES": sorted((["setup"] if c["own_phase"] else []) + (["compile"] if c["export"] and "a" in ecl else []))})
        problems = [f"{k}: {got[k]!r} instead of {want[k]!r}" for k in want if got[k] != want[k]]
        if not older_ok:
            problems.append("the EAPI 5 neighbour package lost its metadata")
        return {"eapi": eapi, "shape": shape, "place": place, "own_phase": c["own_phase"], "export": c["export"], "problems": problems}

    def prop(self, inp, obs):
        return not obs["problems"]


def harness(ob):
    return MetadataHarness(ob)


UNIVERSE = {}


def obligations(tier, seed):
    obs = [{"oid": f"EAPI {e}", "eapi": i, "max_paths": 10000, "max_s": 2400} for i, e in enumerate(EAPIS)]
    UNIVERSE[tier] = {"ebuilds": 3 * 6 * 3 * 2 * 2}
    return obs
