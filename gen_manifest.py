#!/usr/bin/env python3
"""Regenerate MANIFEST.json from props/*.py (META) and na.json.  Run with any python3."""
import ast, json, os, re, sys
D = os.path.dirname(os.path.abspath(__file__))
props = [json.loads(l) for l in open(os.path.join(D, "properties.jsonl"))]
na = json.load(open(os.path.join(D, "na.json")))
checks, napp = [], []
claimed = {}
for p in props:
    pid = p["id"]
    f = os.path.join(D, "props", pid.lower() + ".py")
    if os.path.exists(f):
        src = open(f).read()
        m = re.search(r"^MANIFEST = (\{.*?^\})", src, re.S | re.M)
        if m:
            claimed[pid] = ast.literal_eval(m.group(1))
for p in props:
    pid = p["id"]
    if pid in claimed:
        c = claimed[pid]
        checks.append({
            "property_id": pid,
            "quick_cmd": f"./check {pid} --tier quick",
            "thorough_cmd": f"./check {pid} --tier thorough",
            "evidence_file": f"/verif/evidence/{pid}.json",
            "replay_cmd_template": f"./check {pid} --replay {{path}}",
            "engine": c.get("engine", "sx"),
            "level_claimed": {"category": "model_checking", "text": c["level_text"], "design_ref": c.get("design_ref", "DESIGN.md section 6, " + pid)},
            "level_note": c["level_note"],
            "technique": c["technique"],
        })
    else:
        napp.append({"property_id": pid, "reason": na.get(pid, "not built yet: no check is registered for this property in this revision (see DESIGN.md section 6 for the planned harness)")})
man = {
    "version": 1,
    "setup_cmd": "bash setup.sh",
    "hooks": {"guard": "PKGCORE_VERIF", "enable": "no hooks: all instrumentation is in-process rebinding of module globals by the harnesses; nothing in /repo is guarded", "baseline_off_cmd": "cd /repo && /venv/bin/python -m pytest -ra -q -p no:cacheprovider --timeout=900 --continue-on-collection-errors", "source_commits": [], "add_only": True},
    "engines": [
        {"name": "sx", "path": "/verif/sx", "serves_properties": sorted(claimed), "kind_free_text": "SX: symbolic execution of pkgcore's real code objects with proxy values (SymBool/SymInt/SymStr), path exploration by re-execution, z3 5.1 deciding every branch and the negated assertion per path; AST-lowered shadow modules for string-building parser code; DZ: direct z3 equivalence queries on artefacts (normal forms, regexes, constraint sets) produced by the real code; every counterexample replayed natively before it is reported"},
    ],
    "checks": checks,
    "notes": "Exit codes: 0 held / 1 VIOLATION (replayed natively) / 3 harness error (never with a VIOLATION line). Inconclusive obligations are listed in evidence and never counted as discharged. known_findings.json lists genuine defects (known regions are excluded and printed as KNOWN-FINDING; fixed entries suppress nothing).",
    "not_applicable": napp,
}
json.dump(man, open(os.path.join(D, "MANIFEST.json"), "w"), indent=1)
print("checks:", len(checks), "not_applicable:", len(napp))
