"""AST lowering: compile a *shadow* of a real module from /repo/src on every run,
with the string operations CPython refuses to dispatch to proxies (f-strings,
`sep.join`, `x in "literal"`, `%`-formatting, set membership) rewritten into
helper calls.  Every helper falls through to the real operation on concrete
operands, so a shadow run on concrete inputs behaves like the real module (the
runner checks that with the repository's own test inputs)."""
import ast
import hashlib
import importlib
import types

import z3

from . import core, shims
from .core import SymBool, SymInt, SymStr, Unsupported, ceq, engine, items_of, mk

_isinstance, _str, _len = isinstance, str, len


def SX_FSTR(*parts):
    if all(_isinstance(p, _str) for p in parts):
        return "".join(parts)
    items = []
    for p in parts:
        if _isinstance(p, (_str, SymStr)):
            items += list(items_of(p))
        elif core.is_sym(p):
            if core.ENG is not None and core.ENG.msgmode:
                items += list("<sym>")
            else:
                items += list(items_of(shims.sym_str(p)))
        else:
            items += list(items_of(_fmt_obj(p)))
    return mk(items)


def _fmt_obj(p):
    """format(p, "") for a non-proxy object whose __str__ may return a SymStr (e.g. cpv.Revision)"""
    if type(p).__format__ is object.__format__:
        r = type(p).__str__(p)
        if _isinstance(r, (_str, SymStr)):
            return r
    return format(p, "")


def SX_FMT(v, conv, spec):
    """one formatted f-string piece {v!conv:spec}"""
    if core.is_sym(v):
        if core.ENG is not None and core.ENG.msgmode:
            return "<sym>"
        if conv == -1 and not spec and _isinstance(v, SymStr):
            return v
        if conv == -1 and _isinstance(v, SymInt) and _isinstance(spec, _str) and _len(spec) >= 3 and spec[0] == "0" and spec[-1] == "d" and spec[1:-1].isdigit():
            # zero-padded decimal, e.g. {count:04d}
            its = list(items_of(shims.int_to_str(v)))
            if its and its[0] == "-":
                raise Unsupported("zero-padded rendering of a negative symbolic integer")
            return mk(tuple(["0"] * max(0, int(spec[1:-1]) - _len(its)) + its))
        raise Unsupported("formatted f-string piece with symbolic value")
    if conv == 115:
        v = _str(v)
    elif conv == 114:
        v = repr(v)
    elif conv == 97:
        v = ascii(v)
    return format(v, spec)


def SX_JOIN(sep, it):
    parts = list(it)
    if _isinstance(sep, _str) and all(_isinstance(p, _str) for p in parts):
        return sep.join(parts)
    out = []
    for i, p in enumerate(parts):
        if i:
            out += list(items_of(sep))
        out += list(items_of(p))
    return mk(out)


def SX_IN(a, b):
    if _isinstance(b, SymStr):
        if _isinstance(a, (_str, SymStr)):
            return b.find(a) != -1
        raise TypeError("'in <string>' requires string as left operand")
    if _isinstance(a, SymStr):
        if _isinstance(b, _str):
            if _len(a.items) == 1:
                if not b:
                    return False
                return engine().decide(core._z3or(ceq(a.items[0], ch) for ch in b))
            return SymStr(tuple(b)).find(a) != -1
        if _isinstance(b, shims.SymCharSet):
            return b.__contains__(a)
        if _isinstance(b, (tuple, list)):
            for x in b:
                r = a == x
                if r is not False and bool(r):
                    return True
            return False
        if _isinstance(b, (set, frozenset, dict)) or hasattr(b, "keys"):
            for x in list(b):
                if _isinstance(x, (_str, SymStr)):
                    r = a == x
                    if r is not False and bool(r):
                        return True
            return False
        return a in b
    if _isinstance(a, (SymInt, SymBool)):
        if _isinstance(b, (tuple, list, set, frozenset, range)):
            for x in b:
                r = a == x
                if r is not False and bool(r):
                    return True
            return False
    return a in b


def SX_MOD(a, b):
    if _isinstance(a, _str):
        args = b if _isinstance(b, tuple) else (b,)
        if not any(core.is_sym(x) for x in args) and not (_isinstance(b, dict) and any(core.is_sym(x) for x in b.values())):
            return a % b
        if core.ENG is not None and core.ENG.msgmode:
            return "<sym>"
        # support only %s pieces
        pieces = a.split("%s")
        if a.replace("%s", "").count("%") or _len(pieces) - 1 != _len(args):
            raise Unsupported("% formatting other than %s with symbolic argument")
        out = list(pieces[0])
        for x, p in zip(args, pieces[1:]):
            if _isinstance(x, (_str, SymStr)):
                out += list(items_of(x))
            elif core.is_sym(x):
                raise Unsupported("%s of symbolic number")
            else:
                out += list(_str(x))
            out += list(p)
        return mk(out)
    return a % b


def SX_MSG(thunk):
    """evaluate an exception-constructor argument; only used for messages"""
    if core.ENG is None:
        return thunk()
    with core.msgmode():
        try:
            return thunk()
        except Unsupported:
            return "<sym>"


HELPERS = {"SX_FSTR": SX_FSTR, "SX_FMT": SX_FMT, "SX_JOIN": SX_JOIN, "SX_IN": SX_IN, "SX_MOD": SX_MOD, "SX_MSG": SX_MSG}


class Lower(ast.NodeTransformer):
    def __init__(self, wrap_raise=True):
        self.wrap_raise = wrap_raise

    def visit_JoinedStr(self, node):
        self.generic_visit(node)
        parts = []
        for v in node.values:
            if _isinstance(v, ast.Constant):
                parts.append(v)
            else:
                if v.format_spec is not None or v.conversion != -1:
                    spec = v.format_spec if v.format_spec is not None else ast.Constant("")
                    parts.append(
                        ast.Call(ast.Name("SX_FMT", ast.Load()), [v.value, ast.Constant(v.conversion), spec], [])
                    )
                else:
                    parts.append(v.value)
        return ast.copy_location(ast.Call(ast.Name("SX_FSTR", ast.Load()), parts, []), node)

    def visit_Call(self, node):
        self.generic_visit(node)
        f = node.func
        if (
            _isinstance(f, ast.Attribute)
            and f.attr == "join"
            and _isinstance(f.value, ast.Constant)
            and _isinstance(f.value.value, _str)
            and _len(node.args) == 1
            and not node.keywords
        ):
            return ast.copy_location(ast.Call(ast.Name("SX_JOIN", ast.Load()), [f.value, node.args[0]], []), node)
        return node

    def visit_Compare(self, node):
        self.generic_visit(node)
        if _len(node.ops) == 1 and _isinstance(node.ops[0], (ast.In, ast.NotIn)):
            call = ast.Call(ast.Name("SX_IN", ast.Load()), [node.left, node.comparators[0]], [])
            if _isinstance(node.ops[0], ast.NotIn):
                call = ast.UnaryOp(ast.Not(), call)
            return ast.copy_location(call, node)
        return node

    def visit_BinOp(self, node):
        self.generic_visit(node)
        if _isinstance(node.op, ast.Mod):
            return ast.copy_location(ast.Call(ast.Name("SX_MOD", ast.Load()), [node.left, node.right], []), node)
        return node

    def visit_Raise(self, node):
        self.generic_visit(node)
        if self.wrap_raise and _isinstance(node.exc, ast.Call):
            c = node.exc
            c.args = [
                a
                if _isinstance(a, (ast.Constant, ast.Starred))
                else ast.Call(
                    ast.Name("SX_MSG", ast.Load()),
                    [ast.Lambda(ast.arguments([], [], None, [], [], None, []), a)],
                    [],
                )
                for a in c.args
            ]
            for kw in c.keywords:
                if not _isinstance(kw.value, ast.Constant):
                    kw.value = ast.Call(
                        ast.Name("SX_MSG", ast.Load()),
                        [ast.Lambda(ast.arguments([], [], None, [], [], None, []), kw.value)],
                        [],
                    )
        return node


_SHADOWS = {}


def source_sha(modname):
    real = importlib.import_module(modname)
    with open(real.__file__, "rb") as f:
        return hashlib.sha256(f.read()).hexdigest()[:16]


def shadow(modname, shim_names=("int", "ord", "str", "isinstance", "len"), extra=None, wrap_raise=True, fresh=False):
    """compile a lowered shadow of `modname` from its current source file"""
    key = (modname, tuple(shim_names), wrap_raise)
    if not fresh and key in _SHADOWS and extra is None:
        return _SHADOWS[key]
    real = importlib.import_module(modname)
    with open(real.__file__) as f:
        src = f.read()
    tree = Lower(wrap_raise).visit(ast.parse(src, real.__file__))
    ast.fix_missing_locations(tree)
    codeobj = compile(tree, real.__file__, "exec")
    m = types.ModuleType(modname)
    m.__file__ = real.__file__
    m.__package__ = real.__package__
    m.__spec__ = real.__spec__
    m.__dict__.update(HELPERS)
    for n in shim_names:
        m.__dict__[n] = shims.BUILTIN_SHIMS[n]
    if extra:
        m.__dict__.update(extra)
    exec(codeobj, m.__dict__)
    # module-level code may have rebound names (e.g. `from x import y`); re-apply extras
    if extra:
        m.__dict__.update(extra)
    m.__sx_real__ = real
    if extra is None:
        _SHADOWS[key] = m
    return m


def shadow_func(modname, qualname, shim_names=("int", "ord", "str", "isinstance", "len"), extra=None, wrap_raise=True):
    """compile a lowered copy of ONE function/method (qualname 'Class.method' or 'func') of a real module,
    from the module's current source file; it runs in a copy of the real module's globals plus the helpers
    and builtin shims.  Use when re-executing the whole module as a shadow is undesirable."""
    real = importlib.import_module(modname)
    with open(real.__file__) as f:
        src = f.read()
    tree = ast.parse(src, real.__file__)
    parts = qualname.split(".")
    body = tree.body
    node = None
    for i, name in enumerate(parts):
        node = next((n for n in body if _isinstance(n, (ast.FunctionDef, ast.ClassDef)) and n.name == name), None)
        if node is None:
            raise LookupError(f"{qualname} not found in {real.__file__}")
        body = node.body
    node.decorator_list = []
    mod = ast.Module(body=[node], type_ignores=[])
    mod = Lower(wrap_raise).visit(mod)
    ast.fix_missing_locations(mod)
    ns = dict(real.__dict__)
    ns.update(HELPERS)
    for n in shim_names:
        ns[n] = shims.BUILTIN_SHIMS[n]
    if extra:
        ns.update(extra)
    exec(compile(mod, real.__file__, "exec"), ns)
    return ns[parts[-1]]
