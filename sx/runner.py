"""Obligation runner: executes the harnesses of one property over a process pool,
replays counterexamples natively, applies known-finding regions, writes the
evidence file and decides the exit code.

exit 0  property held on everything explored (inconclusive obligations are reported, never counted)
exit 1  VIOLATION reproduced natively and not listed in known_findings.json
exit 3  harness error (model not reproducible, faithfulness/vacuity self-check failed, nothing discharged)
"""
import hashlib
import importlib
import json
import multiprocessing as mp
import os
import random
import sys
import time
import traceback

VERIF = os.path.dirname(os.path.dirname(os.path.abspath(__file__)))
EVID = os.path.join(VERIF, "evidence")
KF_FILE = os.path.join(VERIF, "known_findings.json")


def jsonable(x):
    if isinstance(x, (str, int, bool, type(None), float)):
        return x
    if isinstance(x, (list, tuple)):
        return [jsonable(y) for y in x]
    if isinstance(x, dict):
        return {str(k): jsonable(v) for k, v in x.items()}
    if isinstance(x, (set, frozenset)):
        return sorted((jsonable(y) for y in x), key=repr)
    if isinstance(x, bytes):
        return x.decode("latin-1")
    return repr(x)


def norm(x):
    """normal form used to compare predicted and native observations"""
    return json.loads(json.dumps(jsonable(x), sort_keys=True))


class Harness:
    """Base class of SX harnesses.

    setup(eng) -> inp        create symbolic inputs (and assumptions)
    body(inp)  -> obs        run the REAL code; must work on proxies (under shims) and on plain concrete inputs (no shims)
    prop(inp, obs) -> ok     the assertion, over inputs and observations (SymBool / z3 Bool / bool)
    shims()    -> bindings   module-global rebindings active while body runs symbolically
    region(name, inp)        predicate of a known-finding region over the inputs
    """

    def __init__(self, ob):
        self.ob = ob

    def shims(self):
        return []

    def setup(self, eng):
        return {}

    def body(self, inp):
        raise NotImplementedError

    def prop(self, inp, obs):
        raise NotImplementedError

    def region(self, name, inp):
        raise KeyError(name)

    def expected(self, inp, obs):
        return None

    def native_setup(self):
        """context manager active during native replays (default: nothing)"""
        import contextlib

        return contextlib.nullcontext()


def run_sx(H, tier, regions=(), max_paths=None, max_s=None, witnesses=None):
    """explore one SX harness; returns a result dict"""
    import z3

    from . import core
    from .core import Budget, Engine, Infeasible, NonDeterministic, SolverUnknown, Unsupported, concretize, unwrap_bool
    from .shims import patched

    ob = H.ob
    quick = tier == "quick"
    eng = Engine(
        max_paths=max_paths or ob.get("max_paths") or (4000 if quick else 40000),
        max_s=max_s or ob.get("max_s") or (60.0 if quick else 600.0),
    )
    core.ENG = eng
    t0 = time.time()
    res = {"oid": ob["oid"], "status": "discharged", "replays": 0, "ob": ob}
    w = witnesses if witnesses is not None else (2 if quick else 6)
    sample_at = {1, 2, 4, 16, 64, 256}
    state = {"first": None}

    def native(cinp):
        saved = core.ENG
        core.ENG = None
        try:
            with H.native_setup():
                return core.plain(guarded_body(H, cinp))
        finally:
            core.ENG = saved

    try:
        inp = H.setup(eng)
        skip = False
        for r in regions:
            pred = H.region(r, inp)
            if pred is True:
                skip = True
                break
            if pred is False or pred is None:
                continue
            eng.assume(z3.Not(unwrap_bool(pred)))
        if skip:
            res["status"] = "known-region"
            return res
        if eng.check() != z3.sat:
            res["status"] = "harness-error"
            res["reason"] = "assumptions unsatisfiable (vacuous harness)"
            return res

        def fn():
            with patched(*H.shims()):
                obs = guarded_body(H, inp)
            ok = False if _isinstance_dict_exc(obs) else H.prop(inp, obs)
            return obs, ok

        def on_path(r):
            obs, ok = r
            okx = unwrap_bool(ok)
            if eng.check(z3.Not(okx)) == z3.sat:
                m = eng.solver.model()
                cinp = concretize(inp, m)
                pred = norm(concretize(obs, m))
                exp = H.expected(inp, obs)
                exp = norm(concretize(exp, m)) if exp is not None else None
                try:
                    nat = norm(native(cinp))
                except Exception as e:  # native run crashed: compare as an observation
                    nat = {"native-exception": type(e).__name__ + ": " + str(e)[:200]}
                res["replays"] += 1
                if _isinstance_dict_exc(obs) and nat != pred:
                    # raised only under symbolic execution (an engine limitation inside the code under test): inconclusive
                    state["soft"] = f"exception only under symbolic execution: {obs}"
                    return None
                return {"cinp": jsonable(cinp), "predicted": pred, "native": nat, "expected": exp}
            # path-faithfulness witness
            if res["replays"] < w and eng.paths in sample_at:
                m = eng.path_model()
                cinp = concretize(inp, m)
                pred = norm(concretize(obs, m))
                nat = norm(native(cinp))
                res["replays"] += 1
                if state["first"] is None:
                    state["first"] = {"inputs": jsonable(cinp), "observed": nat}
                if nat != pred:
                    return {"faith": True, "cinp": jsonable(cinp), "predicted": pred, "native": nat}
            return None

        stop = eng.explore(fn, on_path)
        if stop is not None:
            if stop.get("faith"):
                res["status"] = "harness-error"
                res["reason"] = "path-faithfulness: native result differs from symbolic prediction"
                res["cex"] = stop
            elif stop["native"] != stop["predicted"]:
                res["status"] = "harness-error"
                res["reason"] = "counterexample does not reproduce natively"
                res["cex"] = stop
            else:
                res["status"] = "violated"
                res["cex"] = stop
        elif state.get("soft"):
            res["status"] = "inconclusive"
            res["reason"] = state["soft"]
        elif eng.paths == 0 or state["first"] is None and w > 0:
            res["status"] = "harness-error"
            res["reason"] = "no feasible path reached the assertion (vacuous)"
    except Unsupported as e:
        res["status"] = "inconclusive"
        res["reason"] = "unsupported: " + str(e)
        tb = traceback.extract_tb(e.__traceback__)
        site = next((f"{f.filename}:{f.lineno}" for f in reversed(tb) if "/verif/sx/" not in f.filename), "?")
        res["site"] = site
        if os.environ.get("SX_DEBUG"):
            traceback.print_exc()
    except Budget as e:
        res["status"] = "inconclusive"
        res["reason"] = "budget: " + str(e)
    except SolverUnknown as e:
        res["status"] = "inconclusive"
        res["reason"] = "solver unknown: " + str(e)
    except NonDeterministic as e:
        res["status"] = "inconclusive"
        res["reason"] = "nondeterministic re-execution: " + str(e)
    except Infeasible as e:
        res["status"] = "harness-error"
        res["reason"] = "infeasible: " + str(e)
    except Exception as e:
        res["status"] = "inconclusive"
        res["reason"] = "exception in harness: %s: %s" % (type(e).__name__, str(e)[:300])
        res["tb"] = traceback.format_exc()[-1500:]
    finally:
        core.ENG = None
        res.update(
            paths=eng.paths,
            decisions=eng.decisions,
            forks=eng.forks,
            queries=eng.queries,
            solver_s=round(eng.solver_s, 4),
            wall_s=round(time.time() - t0, 4),
            nvars=eng.nvars,
        )
        if state["first"] is not None:
            res["witness"] = state["first"]
    return res


_MOD = None


def _quiet():
    import logging

    logging.getLogger("pkgcore").setLevel(logging.CRITICAL)


def _worker_init(modname):
    global _MOD
    sys.setrecursionlimit(10000)
    _quiet()
    _MOD = importlib.import_module(modname)
    import signal

    # pkgcore.ebuild.processor installs a SIGTERM handler raising SystemExit; pool shutdown would print tracebacks
    signal.signal(signal.SIGTERM, signal.SIG_DFL)


def _worker(task):
    ob, tier, regions = task
    try:
        H = _MOD.harness(ob)
        if hasattr(H, "run_custom"):
            t0 = time.time()
            r = H.run_custom(tier, regions)
            r.setdefault("oid", ob["oid"])
            r.setdefault("ob", ob)
            r.setdefault("wall_s", round(time.time() - t0, 4))
            return r
        return run_sx(H, tier, regions)
    except BaseException as e:
        return {
            "oid": ob.get("oid"),
            "ob": ob,
            "status": "inconclusive",
            "reason": "worker exception %s: %s" % (type(e).__name__, str(e)[:300]),
            "tb": traceback.format_exc()[-1500:],
            "paths": 0,
            "queries": 0,
            "solver_s": 0.0,
            "decisions": 0,
            "replays": 0,
        }


def _plain(x):
    from . import core

    return core.plain(x)


def load_known(pid):
    if not os.path.exists(KF_FILE):
        return []
    with open(KF_FILE) as f:
        data = json.load(f)
    return [k for k in data.get("findings", []) if k["property"] == pid]


def file_sha(path):
    with open(path, "rb") as f:
        return hashlib.sha256(f.read()).hexdigest()[:16]


def main(argv=None):
    import argparse

    ap = argparse.ArgumentParser()
    ap.add_argument("pid")
    ap.add_argument("--tier", default=os.environ.get("VERIF_TIER", "quick"))
    ap.add_argument("--replay")
    ap.add_argument("--jobs", type=int, default=int(os.environ.get("VERIF_JOBS", "16")))
    ap.add_argument("--only", help="substring filter on obligation ids (debugging; evidence is still written)")
    ap.add_argument("--limit", type=int)
    args = ap.parse_args(argv)
    pid = args.pid.upper()
    tier = args.tier
    seed = int(os.environ.get("VERIF_SEED", "0"))
    modname = "props." + pid.lower()
    _quiet()
    mod = importlib.import_module(modname)
    if args.replay:
        return replay(mod, pid, args.replay)
    t0 = time.time()

    # ---- known findings: replay the recorded inputs natively
    active_regions = []
    known_lines = []
    for k in load_known(pid):
        if k.get("status") != "known":
            continue
        H = mod.harness(k["ob"])
        still = False
        try:
            with H.native_setup():
                nat = norm(_plain(guarded_body(H, k["cinp"])))
            still = nat == norm(k["bad_obs"])
        except Exception as e:
            nat = "exception " + repr(e)
            still = norm({"native-exception": type(e).__name__}) == norm(k["bad_obs"])
        if still:
            known_lines.append(f"KNOWN-FINDING: property={pid} {k['what']}")
            active_regions.append(k["region"])
        else:
            print(f"note: recorded finding {k['id']} no longer reproduces (observed {nat!r}); region not excluded")
    for l in known_lines:
        print(l)

    # ---- self-validation hooks of the property module (translator validation etc.)
    selfcheck = {}
    if hasattr(mod, "selfcheck"):
        try:
            selfcheck = mod.selfcheck(tier, seed) or {}
        except AssertionError as e:
            print(f"HARNESS-ERROR property={pid} selfcheck failed: {e}")
            write_evidence(pid, tier, seed, mod, [], time.time() - t0, selfcheck={"failed": str(e)}, regions=active_regions)
            return 3

    obs_list = mod.obligations(tier, seed)
    if args.only:
        obs_list = [o for o in obs_list if args.only in o["oid"]]
    if args.limit:
        obs_list = obs_list[: args.limit]
    tasks = [(o, tier, active_regions) for o in obs_list]
    results = []
    jobs = max(1, min(args.jobs, len(tasks)))
    if jobs == 1:
        _worker_init(modname)
        for t in tasks:
            results.append(_worker(t))
    else:
        ctx = mp.get_context("spawn")
        with ctx.Pool(jobs, initializer=_worker_init, initargs=(modname,)) as pool:
            cs = max(1, min(8, len(tasks) // (jobs * 16)))
            for r in pool.imap_unordered(_worker, tasks, chunksize=cs):
                results.append(r)
    results.sort(key=lambda r: str(r.get("oid")))

    # ---- verdict
    viol = [r for r in results if r["status"] == "violated"]
    herr = [r for r in results if r["status"] == "harness-error"]
    os.makedirs(os.path.join(EVID, "replay"), exist_ok=True)
    for fn in os.listdir(os.path.join(EVID, "replay")):
        if fn.startswith(pid + "-"):
            os.unlink(os.path.join(EVID, "replay", fn))
    lines = []
    for n, r in enumerate(viol):
        path = os.path.join(EVID, "replay", f"{pid}-{n}.json")
        with open(path, "w") as f:
            json.dump(
                {
                    "property": pid,
                    "ob": r["ob"],
                    "cinp": r["cex"]["cinp"],
                    "bad_obs": r["cex"]["native"],
                    "expected": r["cex"].get("expected"),
                    "recipe": f"./check {pid} --replay {path}",
                },
                f,
                indent=1,
                sort_keys=True,
            )
        if n < 25:
            lines.append(f"VIOLATION property={pid} replay={path}")
            lines.append(
                "  obligation=%s input=%s observed=%s expected=%s"
                % (r["oid"], json.dumps(r["cex"]["cinp"])[:300], json.dumps(r["cex"]["native"])[:200], json.dumps(r["cex"].get("expected"))[:200])
            )
    wall = time.time() - t0
    write_evidence(pid, tier, seed, mod, results, wall, selfcheck=selfcheck, regions=active_regions, known=known_lines)
    st = {}
    for r in results:
        st[r["status"]] = st.get(r["status"], 0) + 1
    print(
        f"{pid} tier={tier} obligations={len(results)} {st} paths={sum(r.get('paths', 0) for r in results)} "
        f"queries={sum(r.get('queries', 0) for r in results)} solver_s={sum(r.get('solver_s', 0) for r in results):.1f} wall={wall:.1f}s"
    )
    slow = sorted(results, key=lambda r: -r.get("wall_s", 0))[:3]
    print("  slowest: " + "; ".join(f"{r['oid'][:80]} {r.get('wall_s', 0):.1f}s/{r.get('paths', 0)}p" for r in slow))
    inc = [r for r in results if r["status"] == "inconclusive"]
    reasons = {}
    for r in inc:
        k = (r.get("reason") or "")[:120] + (" @" + r["site"] if r.get("site") else "")
        reasons[k] = reasons.get(k, 0) + 1
    for k, v in sorted(reasons.items(), key=lambda kv: -kv[1])[:8]:
        print(f"  inconclusive x{v}: {k}")
    if herr:
        for r in herr[:10]:
            print(f"HARNESS-ERROR property={pid} obligation={r['oid']} {r.get('reason')} {json.dumps(r.get('cex'))[:600]}")
        if not viol:
            return 3
        print("  (natively reproduced violations exist as well and are reported; the harness errors above concern other obligations)")
    if viol:
        for l in lines:
            print(l)
        if len(viol) > 25:
            print(f"  ... and {len(viol) - 25} more violating obligations (all replay files written)")
        return 1
    if not any(r["status"] == "discharged" for r in results):
        print(f"HARNESS-ERROR property={pid} nothing discharged")
        return 3
    return 0


def write_evidence(pid, tier, seed, mod, results, wall, selfcheck=None, regions=(), known=()):
    meta = getattr(mod, "META", {})
    funcs = []
    for modname in meta.get("modules", []):
        try:
            m = importlib.import_module(modname)
            funcs.append({"module": modname, "file": m.__file__, "sha256_16": file_sha(m.__file__)})
        except Exception as e:
            funcs.append({"module": modname, "error": repr(e)})
    disc = [r for r in results if r["status"] == "discharged"]
    inc = [r for r in results if r["status"] == "inconclusive"]
    samples = []
    step = max(1, len(disc) // 4)
    for r in disc[::step][:4]:
        samples.append(
            {
                "obligation": r["oid"],
                "spec": r["ob"],
                "paths": r.get("paths"),
                "queries": r.get("queries"),
                "symbolic_vars": r.get("nvars"),
                "witness": r.get("witness"),
            }
        )
    for r in results:
        if r["status"] == "violated":
            samples.append({"obligation": r["oid"], "spec": r["ob"], "violation": r["cex"]})
            break
    if not samples:
        samples = [{"note": "no obligation discharged in this run"}]
    reasons = {}
    sites = {}
    for r in inc:
        k = (r.get("reason") or "")[:160]
        reasons[k] = reasons.get(k, 0) + 1
        if r.get("site"):
            sites[r["site"]] = sites.get(r["site"], 0) + 1
    cov = {
        "states": sum(r.get("paths", 0) for r in results),
        "transitions": sum(r.get("decisions", 0) for r in results),
        "traces_validated_against_impl": sum(r.get("replays", 0) for r in results),
        "samples": samples,
        "obligations": len(results),
        "discharged": len(disc),
        "violated": sum(1 for r in results if r["status"] == "violated"),
        "inconclusive": len(inc),
        "inconclusive_reasons": reasons,
        "known_region_skipped": sum(1 for r in results if r["status"] == "known-region"),
        "harness_errors": sum(1 for r in results if r["status"] == "harness-error"),
        "queries": sum(r.get("queries", 0) for r in results),
        "solver_s": round(sum(r.get("solver_s", 0) for r in results), 2),
        "forks": sum(r.get("forks", 0) for r in results),
        "evaluations": len(results),
        "distinct_nontrivial": sum(1 for r in disc if r.get("paths", 0) >= 2 or r.get("nvars", 0) >= 1 or r.get("nontrivial")),
        "rule": "one evaluation = one obligation (concrete shape, symbolic contents); non-trivial = discharged with >= 2 feasible paths or >= 1 symbolic value variable",
        "functions_encoded": meta.get("functions", []),
        "source_files": funcs,
        "bounds": meta.get("bounds", {}).get(tier, meta.get("bounds")),
        "outside_claim": meta.get("outside", []),
        "shims": meta.get("shims", []),
        "stubs": meta.get("stubs", []),
        "unsupported_sites": sites,
        "selector_only": meta.get("selector_only", False),
        "universe": getattr(mod, "UNIVERSE", {}).get(tier) if hasattr(mod, "UNIVERSE") else None,
        "known_finding_regions_excluded": list(regions),
        "known_findings_reported": list(known),
        "selfcheck": selfcheck or {},
        "exhaustive": False,
        "engine": "SX (proxy symbolic execution of the real code objects, z3 %s)" % _z3v(),
    }
    ev = {
        "property_id": pid,
        "tier": tier,
        "seed": seed,
        "level": "model_checking",
        "coverage": cov,
        "assumptions": meta.get("assumptions", []),
        "wall_s": round(wall, 2),
        "violations": cov["violated"],
    }
    os.makedirs(EVID, exist_ok=True)
    with open(os.path.join(EVID, f"{pid}.json"), "w") as f:
        json.dump(ev, f, indent=1, sort_keys=True, default=repr)


def _z3v():
    try:
        import z3

        return z3.get_version_string()
    except Exception:
        return "?"


def _isinstance_dict_exc(obs):
    return isinstance(obs, dict) and "undeclared_exception" in obs


def guarded_body(H, inp):
    """H.body(inp); an ordinary exception that escapes from code of the package under test (innermost frame outside
    /verif) is an observation of its own - harnesses catch what the code may legitimately raise, so anything else is an
    undeclared exception (CrossHair's `raises:` convention).  Exceptions raised by the harness or the engine propagate."""
    from .core import Unsupported

    try:
        return H.body(inp)
    except Unsupported:
        raise
    except Exception as e:
        tb = traceback.extract_tb(e.__traceback__)
        inner = tb[-1] if tb else None
        if inner is None or "/verif/" in inner.filename or not ("/pkgcore/" in inner.filename or "/snakeoil/" in inner.filename):
            raise
        return {"undeclared_exception": type(e).__name__, "raised_in": f"{os.path.basename(inner.filename)}:{inner.name}"}


def replay(mod, pid, path):
    with open(path) as f:
        rec = json.load(f)
    H = mod.harness(rec["ob"])
    try:
        with H.native_setup():
            nat = norm(_plain(guarded_body(H, rec["cinp"])))
    except Exception as e:
        nat = {"native-exception": type(e).__name__ + ": " + str(e)[:200]}
    print("input   :", json.dumps(rec["cinp"]))
    print("observed:", json.dumps(nat))
    print("recorded:", json.dumps(rec["bad_obs"]))
    print("expected:", json.dumps(rec.get("expected")))
    if nat == norm(rec["bad_obs"]):
        print(f"VIOLATION property={pid} replay={path}")
        return 1
    print("recorded violation does not reproduce on this tree")
    return 0


if __name__ == "__main__":
    sys.exit(main())
