"""SX core: proxy values over the real code objects, path exploration by
re-execution, z3 incremental solving.

Nothing in here knows about pkgcore.  The engine executes *the real function
objects* with proxy arguments; only ``SymBool.__bool__`` forks.

Control-flow exceptions derive from BaseException so that ``except Exception``
clauses of the code under test cannot swallow them.
"""
import time
import z3

_int, _str, _bool, _ord, _len, _hash, _isinstance, _chr = int, str, bool, ord, len, hash, isinstance, chr


class SXControl(BaseException):
    pass


class Unsupported(SXControl):
    """An operation the proxies do not model was reached with a symbolic operand."""


class Budget(SXControl):
    """path / time budget of the obligation exhausted"""


class SolverUnknown(SXControl):
    pass


class NonDeterministic(SXControl):
    pass


class Infeasible(SXControl):
    """path condition became unsatisfiable (assume() of something false)"""


ENG = None  # engine of the obligation being executed in this process


def engine():
    if ENG is None:
        raise RuntimeError("no SX engine active")
    return ENG


class Engine:
    def __init__(self, max_paths=20000, max_s=120.0, solver_timeout_ms=20000):
        self.solver = z3.Solver()
        self.solver.set("timeout", solver_timeout_ms)
        self.prefix = []
        self.trace = []
        self.queries = 0
        self.solver_s = 0.0
        self.paths = 0
        self.decisions = 0
        self.forks = 0
        self.max_paths = max_paths
        self.max_s = max_s
        self.t0 = time.time()
        self.building = 0
        self.msgmode = 0
        self._hid = 0
        self._model = None  # a model of the current path condition, when known
        self.vars = {}
        self.base = []  # global assumptions (domains)
        self.unsupported_sites = []
        self.nvars = 0
        self.pc_terms = []
        self.models = []
        self.decided = {}

    # ---- variables -------------------------------------------------------
    def _reg(self, name, v):
        if name in self.vars:
            raise RuntimeError("duplicate symbolic variable " + name)
        self.vars[name] = v
        self.nvars += 1
        return v

    def bool(self, name):
        return SymBool(self._reg(name, z3.Bool(name)))

    def int(self, name, lo=None, hi=None):
        v = self._reg(name, z3.Int(name))
        if lo is not None:
            self.assume(v >= lo)
        if hi is not None:
            self.assume(v <= hi)
        return SymInt(v)

    def bv(self, name, bits, width=32):
        """an unsigned integer < 2**bits carried in a bit-vector of `width`"""
        v = self._reg(name, z3.BitVec(name, width))
        self.assume(z3.ULT(v, z3.BitVecVal(1 << bits, width)))
        return SymInt(v)

    def char(self, name, cls):
        """one character; cls is a string of allowed characters or a list of (lo,hi) code ranges"""
        v = self._reg(name, z3.Int(name))
        self.assume(char_in(v, cls))
        return v

    def digits(self, name, n):
        return [self.char(f"{name}{i}", "0123456789") for i in range(n)]

    def assume(self, e):
        e = unwrap_bool(e)
        self.base.append(e)
        self.solver.add(e)
        self.models = []

    # ---- solving ------------------------------------------------------------
    def check(self, *extra):
        if time.time() - self.t0 > self.max_s:
            raise Budget(f"time budget {self.max_s}s")
        t = time.time()
        self.queries += 1
        r = self.solver.check(*extra)
        self.solver_s += time.time() - t
        if r == z3.unknown:
            raise SolverUnknown(self.solver.reason_unknown())
        return r

    def peek_tag(self):
        """the tag recorded with the next decision when replaying a prefix (None when exploring)"""
        i = len(self.trace)
        if i < len(self.prefix):
            return self.prefix[i][2]
        return None

    def decide(self, expr, tag=None, nocache=False):
        if expr is True or expr is _TRUE:
            return True
        if expr is False or expr is _FALSE:
            return False
        expr = z3.simplify(expr)
        if z3.is_true(expr):
            return True
        if z3.is_false(expr):
            return False
        neg = False
        atom = expr
        while z3.is_not(atom):
            atom = atom.arg(0)
            neg = not neg
        k = atom.get_id()
        hit = None if nocache else self.decided.get(k)
        if hit is not None:
            return hit[0] != neg
        self.decisions += 1
        i = len(self.trace)
        if i < len(self.prefix):
            val, forced = self.prefix[i][:2]
            self.models = []
        else:
            can_t = can_f = False
            for m in self.models:
                hv = m.eval(expr, model_completion=True)
                if z3.is_true(hv):
                    can_t = True
                elif z3.is_false(hv):
                    can_f = True
                if can_t and can_f:
                    break
            if not can_t:
                can_t = self.check(expr) == z3.sat
                if can_t:
                    self.models.append(self.solver.model())
            if not can_f:
                can_f = self.check(z3.Not(expr)) == z3.sat
                if can_f:
                    self.models.append(self.solver.model())
            if can_t and can_f:
                val, forced = True, False
                self.forks += 1
            elif can_t:
                val, forced = True, True
            elif can_f:
                val, forced = False, True
            else:
                raise Infeasible("infeasible path")
        self.trace.append((val, forced, tag))
        self.decided[k] = (val != neg, atom)
        lit = expr if val else z3.Not(expr)
        self.pc_terms.append(lit)
        self.solver.add(lit)
        if self.models:
            keep = []
            for m in self.models:
                hv = m.eval(expr, model_completion=True)
                if (val and z3.is_true(hv)) or ((not val) and z3.is_false(hv)):
                    keep.append(m)
            self.models = keep[-4:]
        return val

    def path_model(self):
        if not self.models:
            if self.check() != z3.sat:
                raise Infeasible("path condition unsat")
            self.models.append(self.solver.model())
        return self.models[-1]

    # ---- exploration ----------------------------------------------------------
    def explore(self, fn, on_path):
        """Run fn() once per feasible path (DFS).  on_path(result) is called inside
        the path's solver scope and may return a value that stops exploration."""
        self.prefix = []
        while True:
            if self.paths >= self.max_paths:
                raise Budget(f"path budget {self.max_paths}")
            if time.time() - self.t0 > self.max_s:
                raise Budget(f"time budget {self.max_s}s")
            self.solver.push()
            self.trace = []
            self.pc_terms = []
            self._hid = 0
            self.models = []
            self.decided = {}
            try:
                try:
                    res = fn()
                except Infeasible:
                    res = Infeasible
                self.paths += 1
                if len(self.trace) < len(self.prefix):
                    raise NonDeterministic("re-execution consumed fewer decisions than recorded")
                stop = None if res is Infeasible else on_path(res)
            finally:
                self.solver.pop()
            if stop is not None:
                return stop
            t = self.trace
            while t and (t[-1][1] or t[-1][0] is False):
                t.pop()
            if not t:
                return None
            t[-1] = (False, True, t[-1][2])
            self.prefix = list(t)

    def summarize(self, fn):
        """explore every path of fn() and return [(path_condition, result)]; results are
        (nested) sym values.  The path conditions are pairwise disjoint and cover the domain."""
        out = []

        def on_path(r):
            out.append((_z3and(list(self.pc_terms)), r))
            return None

        self.explore(fn, on_path)
        return out

    def next_hid(self):
        self._hid += 1
        return self._hid


class building:
    """inside this block proxies have a (deterministic) identity hash"""

    def __enter__(self):
        if ENG is not None:
            ENG.building += 1

    def __exit__(self, *a):
        if ENG is not None:
            ENG.building -= 1


class msgmode:
    def __enter__(self):
        if ENG is not None:
            ENG.msgmode += 1

    def __exit__(self, *a):
        if ENG is not None:
            ENG.msgmode -= 1


def _proxy_hash(self):
    e = ENG
    h = getattr(self, "_hid", None)
    if h is not None:
        # identity hash handed out inside a building() block stays valid (weak-cache removal callbacks need it)
        return h
    if e is not None and (e.building or e.msgmode):
        h = e.next_hid()
        object.__setattr__(self, "_hid", h)
        return h
    if e is not None:
        # concretisation by forking: enumerate the feasible values one by one (bounded); on each
        # branch the value is fixed by the path condition, so dict/set lookups behave natively
        return _concretize_hash(self, e)
    raise Unsupported(f"hash of symbolic {type(self).__name__}")


CONCRETIZE_LIMIT = 64


def _concretize_hash(x, eng):
    """fork over the feasible values of x, one per branch.  The candidate tried at each step is recorded
    as the decision's tag so that re-executions of the path prefix try the same candidates."""
    for _ in range(CONCRETIZE_LIMIT):
        tag = eng.peek_tag()
        if tag is not None:
            v = tag[1]
        else:
            v = concretize(x, eng.path_model())
        if _isinstance(x, SymBool):
            cond = x.e if v else z3.Not(x.e)
        elif _isinstance(x, SymInt):
            cond = x.e == (z3.BitVecVal(v, x.e.size()) if z3.is_bv(x.e) else z3.IntVal(v))
        else:
            cond = _z3and(ceq(a, b) for a, b in zip(x.items, v))
        if eng.decide(cond, tag=("concretize", v), nocache=True):
            return _hash(v)
    raise Unsupported(f"hash of symbolic {type(x).__name__} with more than {CONCRETIZE_LIMIT} feasible values")


def fix(x):
    """force a symbolic value to a concrete python value by forking over its feasible values
    (nondeterministic choice decided by the solver; one path per feasible value, bounded by
    CONCRETIZE_LIMIT values per call site).  Plain values are returned unchanged."""
    if not is_sym(x):
        if _isinstance(x, (list, tuple)):
            return type(x)(fix(y) for y in x)
        if _isinstance(x, dict):
            return {k: fix(v) for k, v in x.items()}
        return x
    eng = engine()
    if _isinstance(x, SymStr):
        # character by character: the number of forks per call site stays bounded by the alphabet size
        return "".join(c if _isinstance(c, _str) else _chr(fix(SymInt(c))) for c in x.items)
    for _ in range(CONCRETIZE_LIMIT):
        tag = eng.peek_tag()
        v = tag[1] if tag is not None else concretize(x, eng.path_model())
        if _isinstance(x, SymBool):
            cond = x.e if v else z3.Not(x.e)
        elif _isinstance(x, SymInt):
            cond = x.e == (z3.BitVecVal(v, x.e.size()) if z3.is_bv(x.e) else z3.IntVal(v))
        else:
            cond = _z3and(ceq(a, b) for a, b in zip(x.items, v))
        if eng.decide(cond, tag=("concretize", v), nocache=True):
            return v
    raise Unsupported(f"fix(): more than {CONCRETIZE_LIMIT} feasible values")


def char_in(v, cls):
    if _isinstance(cls, _str):
        codes = sorted(set(_ord(c) for c in cls))
        # compress into ranges
        rs = []
        for c in codes:
            if rs and rs[-1][1] == c - 1:
                rs[-1][1] = c
            else:
                rs.append([c, c])
        cls = rs
    ors = []
    for lo, hi in cls:
        ors.append(v == lo if lo == hi else z3.And(v >= lo, v <= hi))
    return z3.Or(ors) if len(ors) != 1 else ors[0]


# ---------------------------------------------------------------- values
def is_sym(x):
    return _isinstance(x, (SymBool, SymInt, SymStr))


def unwrap_bool(x):
    if _isinstance(x, SymBool):
        return x.e
    if _isinstance(x, _bool):
        return z3.BoolVal(x)
    if _isinstance(x, z3.BoolRef):
        return x
    if _isinstance(x, SymInt):
        return x.e != 0
    if x is None:
        return z3.BoolVal(False)
    if _isinstance(x, (_int, _str, tuple, list, dict, set, frozenset)):
        return z3.BoolVal(_bool(x))
    if _isinstance(x, SymStr):
        return z3.BoolVal(_len(x.items) > 0)
    raise Unsupported(f"truth value of {type(x).__name__} as term")


def _is_bv(e):
    return z3.is_bv(e)


def lift(x, like=None):
    """python/sym number -> z3 arithmetic term (Int, or BitVec when `like` is a BV)"""
    if _isinstance(x, SymInt):
        e = x.e
    elif _isinstance(x, SymBool):
        e = z3.If(x.e, 1, 0)
    elif _isinstance(x, _bool):
        e = z3.IntVal(_int(x))
    elif _isinstance(x, _int):
        e = z3.IntVal(x)
    elif _isinstance(x, z3.ArithRef) or _isinstance(x, z3.BitVecRef):
        e = x
    else:
        return None
    if like is not None and _is_bv(like) and not _is_bv(e):
        if z3.is_int_value(e):
            e = z3.BitVecVal(e.as_long(), like.size())
        else:
            e = z3.Int2BV(e, like.size())
    return e


def _coerce(a, b):
    if _is_bv(a) and not _is_bv(b):
        b = lift(SymInt(b), a)
    elif _is_bv(b) and not _is_bv(a):
        a = lift(SymInt(a), b)
    return a, b


class SymBool:
    __slots__ = ("e", "_hid")

    def __init__(self, e):
        object.__setattr__(self, "e", e if not _isinstance(e, _bool) else z3.BoolVal(e))
        object.__setattr__(self, "_hid", None)

    def __bool__(self):
        return engine().decide(self.e)

    def __eq__(self, o):
        if _isinstance(o, SymBool):
            return SymBool(self.e == o.e)
        if _isinstance(o, _bool):
            return SymBool(self.e if o else z3.Not(self.e))
        if _isinstance(o, (_int, SymInt)):
            return SymInt(lift(self)) == o
        return False

    def __ne__(self, o):
        r = self.__eq__(o)
        if _isinstance(r, _bool):
            return not r
        return SymBool(z3.Not(r.e))

    def _ar(self, o, f):
        l = lift(o)
        if l is None:
            return NotImplemented
        return SymInt(f(lift(self), l))

    def __add__(self, o):
        return self._ar(o, lambda a, b: a + b)

    __radd__ = __add__

    def __sub__(self, o):
        return self._ar(o, lambda a, b: a - b)

    def __rsub__(self, o):
        return self._ar(o, lambda a, b: b - a)

    def __and__(self, o):
        if _isinstance(o, (SymBool, _bool)):
            return SymBool(z3.And(self.e, unwrap_bool(o)))
        return NotImplemented

    __rand__ = __and__

    def __or__(self, o):
        if _isinstance(o, (SymBool, _bool)):
            return SymBool(z3.Or(self.e, unwrap_bool(o)))
        return NotImplemented

    __ror__ = __or__

    def __xor__(self, o):
        if _isinstance(o, (SymBool, _bool)):
            return SymBool(z3.Xor(self.e, unwrap_bool(o)))
        return NotImplemented

    __rxor__ = __xor__

    def __invert__(self):
        raise Unsupported("~ on SymBool")

    def __lt__(self, o):
        return SymInt(lift(self)) < o

    def __gt__(self, o):
        return SymInt(lift(self)) > o

    def __le__(self, o):
        return SymInt(lift(self)) <= o

    def __ge__(self, o):
        return SymInt(lift(self)) >= o

    def __index__(self):
        raise Unsupported("SymBool as index")

    __hash__ = _proxy_hash

    def __repr__(self):
        return f"SymBool({self.e})"

    def __format__(self, spec):
        if ENG is not None and ENG.msgmode:
            return "<symbool>"
        raise Unsupported("format of SymBool")

    __str__ = lambda self: self.__format__("")


class SymInt:
    __slots__ = ("e", "_hid")

    def __init__(self, e):
        if _isinstance(e, _int):
            e = z3.IntVal(e)
        object.__setattr__(self, "e", e)
        object.__setattr__(self, "_hid", None)

    def _b(self, o, f):
        l = lift(o)
        if l is None:
            return NotImplemented
        a, b = _coerce(self.e, l)
        return f(a, b)

    def _cmp(self, o, fi, fb):
        l = lift(o)
        if l is None:
            return NotImplemented
        a, b = _coerce(self.e, l)
        return SymBool(fb(a, b) if _is_bv(a) else fi(a, b))

    def __eq__(self, o):
        l = lift(o)
        if l is None:
            return False
        a, b = _coerce(self.e, l)
        return SymBool(a == b)

    def __ne__(self, o):
        l = lift(o)
        if l is None:
            return True
        a, b = _coerce(self.e, l)
        return SymBool(a != b)

    def __lt__(self, o):
        return self._cmp(o, lambda a, b: a < b, z3.ULT)

    def __le__(self, o):
        return self._cmp(o, lambda a, b: a <= b, z3.ULE)

    def __gt__(self, o):
        return self._cmp(o, lambda a, b: a > b, z3.UGT)

    def __ge__(self, o):
        return self._cmp(o, lambda a, b: a >= b, z3.UGE)

    def _w(self, r):
        return r if r is NotImplemented else SymInt(r)

    def __add__(self, o):
        return self._w(self._b(o, lambda a, b: a + b))

    __radd__ = __add__

    def __sub__(self, o):
        return self._w(self._b(o, lambda a, b: a - b))

    def __rsub__(self, o):
        return self._w(self._b(o, lambda a, b: b - a))

    def __neg__(self):
        return SymInt(-self.e)

    def __pos__(self):
        return self

    def __abs__(self):
        return SymInt(z3.If(self.e < 0, -self.e, self.e))

    def __mul__(self, o):
        return self._w(self._b(o, lambda a, b: a * b))

    __rmul__ = __mul__

    def __floordiv__(self, o):
        l = lift(o)
        if l is None:
            return NotImplemented
        if _is_bv(self.e) or _is_bv(l):
            a, b = _coerce(self.e, l)
            return SymInt(z3.UDiv(a, b))
        if not z3.is_int_value(l) or l.as_long() <= 0:
            # python floor division == z3 div only for positive divisor
            if bool(SymBool(l <= 0)):
                raise Unsupported("floordiv by non-positive symbolic")
        return SymInt(self.e / l)

    def __rfloordiv__(self, o):
        return SymInt(lift(o)).__floordiv__(self)

    def __mod__(self, o):
        l = lift(o)
        if l is None:
            return NotImplemented
        if _is_bv(self.e) or _is_bv(l):
            a, b = _coerce(self.e, l)
            return SymInt(z3.URem(a, b))
        if not z3.is_int_value(l) or l.as_long() <= 0:
            if bool(SymBool(l <= 0)):
                raise Unsupported("mod by non-positive symbolic")
        return SymInt(self.e % l)

    def __truediv__(self, o):
        raise Unsupported("true division of SymInt (float)")

    __rtruediv__ = __truediv__

    def _bvop(self, o, f):
        l = lift(o)
        if l is None:
            return NotImplemented
        a, b = self.e, l
        if not _is_bv(a) and not _is_bv(b):
            raise Unsupported("bit operation on mathematical Int (use eng.bv)")
        a, b = _coerce(a, b)
        return SymInt(f(a, b))

    def __and__(self, o):
        return self._bvop(o, lambda a, b: a & b)

    __rand__ = __and__

    def __or__(self, o):
        return self._bvop(o, lambda a, b: a | b)

    __ror__ = __or__

    def __xor__(self, o):
        return self._bvop(o, lambda a, b: a ^ b)

    __rxor__ = __xor__

    def __invert__(self):
        if not _is_bv(self.e):
            return SymInt(-self.e - 1)
        return SymInt(~self.e)

    def __lshift__(self, o):
        return self._bvop(o, lambda a, b: a << b)

    def __rshift__(self, o):
        return self._bvop(o, lambda a, b: z3.LShR(a, b))

    def __bool__(self):
        return engine().decide(self.e != 0)

    def __index__(self):
        raise Unsupported("SymInt used as a concrete index/len/range bound")

    def __int__(self):
        raise Unsupported("int() of SymInt outside shimmed module")

    def __float__(self):
        raise Unsupported("float() of SymInt")

    __hash__ = _proxy_hash

    def __repr__(self):
        return f"SymInt({self.e})"

    def __format__(self, spec):
        if ENG is not None and ENG.msgmode:
            return "<symint>"
        raise Unsupported("format of SymInt")

    __str__ = lambda self: self.__format__("")


_CODES = {}


def code(c):
    if _isinstance(c, _str):
        r = _CODES.get(c)
        if r is None:
            r = _CODES[c] = z3.IntVal(_ord(c))
        return r
    return c


def ceq(a, b):
    """char equality: python bool when both concrete, else z3 Bool"""
    if _isinstance(a, _str):
        if _isinstance(b, _str):
            return a == b
        return b == code(a)
    return a == code(b)


def items_of(x):
    if _isinstance(x, SymStr):
        return x.items
    if _isinstance(x, _str):
        return tuple(x)
    raise Unsupported(f"string operation with {type(x).__name__}")


_TRUE = z3.BoolVal(True)
_FALSE = z3.BoolVal(False)


def _z3and(xs):
    out = []
    for x in xs:
        if x is True:
            continue
        if x is False:
            return _FALSE
        out.append(x)
    if not out:
        return _TRUE
    return z3.And(out) if len(out) > 1 else out[0]


def _z3or(xs):
    out = []
    for x in xs:
        if x is False:
            continue
        if x is True:
            return _TRUE
        out.append(x)
    if not out:
        return _FALSE
    return z3.Or(out) if len(out) > 1 else out[0]


_WS = " \t\n\r\x0b\x0c"


def mk(items):
    """normalising constructor: concrete when every item is concrete"""
    items = tuple(items)
    for c in items:
        if not _isinstance(c, _str):
            return SymStr(items)
    return "".join(items)


class SymStr:
    """string of concrete length; items are 1-char str or z3 Int code points"""

    __slots__ = ("items", "_hid")

    def __init__(self, items):
        object.__setattr__(self, "items", tuple(items))
        object.__setattr__(self, "_hid", None)

    # -- basic protocol
    def __len__(self):
        return _len(self.items)

    def __bool__(self):
        return _len(self.items) > 0

    def __iter__(self):
        for c in self.items:
            yield c if _isinstance(c, _str) else SymStr((c,))

    def __getitem__(self, i):
        if _isinstance(i, slice):
            return mk(self.items[i])
        if _isinstance(i, (SymInt, SymBool)):
            raise Unsupported("symbolic index into string")
        c = self.items[i]
        return c if _isinstance(c, _str) else SymStr((c,))

    def __eq__(self, o):
        if _isinstance(o, (_str, SymStr)):
            oi = items_of(o)
            if _len(oi) != _len(self.items):
                return False
            return SymBool(_z3and(ceq(a, b) for a, b in zip(self.items, oi)))
        return False

    def __ne__(self, o):
        r = self.__eq__(o)
        if _isinstance(r, _bool):
            return not r
        return SymBool(z3.Not(r.e))

    def _lt(self, o, strict=True):
        a_items, b_items = self.items, items_of(o)
        res = z3.BoolVal(_len(a_items) < _len(b_items) if strict else _len(a_items) <= _len(b_items))
        for a, b in reversed(list(zip(a_items, b_items))):
            ca, cb = code(a), code(b)
            res = z3.If(ca < cb, True, z3.If(ca > cb, False, res))
        return res

    def __lt__(self, o):
        if not _isinstance(o, (_str, SymStr)):
            return NotImplemented
        return SymBool(self._lt(o))

    def __le__(self, o):
        if not _isinstance(o, (_str, SymStr)):
            return NotImplemented
        return SymBool(self._lt(o, strict=False))

    def __gt__(self, o):
        if not _isinstance(o, (_str, SymStr)):
            return NotImplemented
        return SymBool(SymStr(items_of(o))._lt(self))

    def __ge__(self, o):
        if not _isinstance(o, (_str, SymStr)):
            return NotImplemented
        return SymBool(SymStr(items_of(o))._lt(self, strict=False))

    def __add__(self, o):
        if not _isinstance(o, (_str, SymStr)):
            return NotImplemented
        return mk(self.items + items_of(o))

    def __radd__(self, o):
        if not _isinstance(o, (_str, SymStr)):
            return NotImplemented
        return mk(items_of(o) + self.items)

    def __mul__(self, n):
        if not _isinstance(n, _int):
            raise Unsupported("str * symbolic")
        return mk(self.items * n)

    __rmul__ = __mul__

    def __contains__(self, sub):
        return self.find(sub) != -1

    __hash__ = _proxy_hash

    def __repr__(self):
        return "SymStr(%s)" % "".join(c if _isinstance(c, _str) else "{%s}" % c for c in self.items)

    def __format__(self, spec):
        if ENG is not None and ENG.msgmode:
            return "".join(c if _isinstance(c, _str) else "?" for c in self.items)
        raise Unsupported("format/str of SymStr outside a lowered module")

    def __str__(self):
        return self.__format__("")

    def __mod__(self, o):
        raise Unsupported("% formatting with SymStr template")

    def __rmod__(self, o):
        raise Unsupported("% formatting with SymStr argument")

    def _dec(self, e):
        return engine().decide(e)

    # -- searching
    def find(self, sub, start=0, end=None):
        n = _len(self.items)
        if end is None or end > n:
            end = n
        if end < 0:
            end = max(0, n + end)
        if start < 0:
            start = max(0, n + start)
        sub = items_of(sub)
        for i in range(start, end - _len(sub) + 1):
            if self._dec(_z3and(ceq(self.items[i + j], sub[j]) for j in range(_len(sub)))):
                return i
        return -1

    def rfind(self, sub, start=0, end=None):
        n = _len(self.items)
        if end is None or end > n:
            end = n
        if end < 0:
            end = max(0, n + end)
        if start < 0:
            start = max(0, n + start)
        sub = items_of(sub)
        for i in range(end - _len(sub), start - 1, -1):
            if self._dec(_z3and(ceq(self.items[i + j], sub[j]) for j in range(_len(sub)))):
                return i
        return -1

    def index(self, sub, *a):
        r = self.find(sub, *a)
        if r == -1:
            raise ValueError("substring not found")
        return r

    def rindex(self, sub, *a):
        r = self.rfind(sub, *a)
        if r == -1:
            raise ValueError("substring not found")
        return r

    def count(self, sub):
        sub = items_of(sub)
        if not sub:
            return _len(self.items) + 1
        n, i = 0, 0
        while i <= _len(self.items) - _len(sub):
            if self._dec(_z3and(ceq(self.items[i + j], sub[j]) for j in range(_len(sub)))):
                n += 1
                i += _len(sub)
            else:
                i += 1
        return n

    def startswith(self, p, start=0):
        if _isinstance(p, tuple):
            return any(self.startswith(x, start) for x in p)
        p = items_of(p)
        it = self.items[start:]
        if _len(p) > _len(it):
            return False
        return self._dec(_z3and(ceq(a, b) for a, b in zip(it, p)))

    def endswith(self, p):
        if _isinstance(p, tuple):
            return any(self.endswith(x) for x in p)
        p = items_of(p)
        if _len(p) > _len(self.items):
            return False
        if not p:
            return True
        return self._dec(_z3and(ceq(a, b) for a, b in zip(self.items[-_len(p):], p)))

    # -- splitting
    def _match_at(self, i, sep):
        if i + _len(sep) > _len(self.items):
            return False
        return self._dec(_z3and(ceq(self.items[i + j], sep[j]) for j in range(_len(sep))))

    def split(self, sep=None, maxsplit=-1):
        if sep is None:
            return self._split_ws(maxsplit)
        sep = items_of(sep)
        if not sep:
            raise ValueError("empty separator")
        out, cur, n, i = [], [], 0, 0
        while i < _len(self.items):
            if (maxsplit < 0 or n < maxsplit) and self._match_at(i, sep):
                out.append(mk(cur))
                cur = []
                n += 1
                i += _len(sep)
            else:
                cur.append(self.items[i])
                i += 1
        out.append(mk(cur))
        return out

    def _is_ws(self, c):
        return self._dec(_z3or(ceq(c, w) for w in _WS))

    def _split_ws(self, maxsplit=-1):
        out, cur, n = [], [], 0
        i = 0
        items = self.items
        while i < _len(items):
            c = items[i]
            if maxsplit >= 0 and n >= maxsplit and not cur:
                # skip leading ws then take the rest (rstripped? no: python keeps trailing ws... it strips it)
                while i < _len(items) and self._is_ws(items[i]):
                    i += 1
                rest = list(items[i:])
                while rest and self._is_ws(rest[-1]):
                    rest.pop()
                if rest:
                    out.append(mk(rest))
                return out
            if self._is_ws(c):
                if cur:
                    out.append(mk(cur))
                    cur = []
                    n += 1
            else:
                cur.append(c)
            i += 1
        if cur:
            out.append(mk(cur))
        return out

    def rsplit(self, sep=None, maxsplit=-1):
        if sep is None:
            if maxsplit < 0:
                return self._split_ws()
            raise Unsupported("rsplit(None, n)")
        sep = items_of(sep)
        out, cur, n = [], [], 0
        i = _len(self.items)
        L = _len(sep)
        while i > 0:
            if (maxsplit < 0 or n < maxsplit) and i - L >= 0 and self._dec(
                _z3and(ceq(self.items[i - L + j], sep[j]) for j in range(L))
            ):
                out.append(mk(reversed(cur)))
                cur = []
                n += 1
                i -= L
            else:
                cur.append(self.items[i - 1])
                i -= 1
        out.append(mk(reversed(cur)))
        return list(reversed(out))

    def partition(self, sep):
        i = self.find(sep)
        if i == -1:
            return (self, "", "")
        return (mk(self.items[:i]), sep, mk(self.items[i + _len(items_of(sep)):]))

    def rpartition(self, sep):
        i = self.rfind(sep)
        if i == -1:
            return ("", "", self)
        return (mk(self.items[:i]), sep, mk(self.items[i + _len(items_of(sep)):]))

    def splitlines(self, keepends=False):
        out, cur = [], []
        for c in self.items:
            if self._dec(_z3or(ceq(c, w) for w in "\n\r\x0b\x0c\x1c\x1d\x1e\x85  ")):
                if not _isinstance(c, _str) or c == "\r":
                    # \r\n handling needs care; keep it simple and sound
                    if self._dec(ceq(c, "\r")):
                        raise Unsupported("splitlines with possible \\r")
                if keepends:
                    cur.append(c)
                out.append(mk(cur))
                cur = []
            else:
                cur.append(c)
        if cur:
            out.append(mk(cur))
        return out

    # -- stripping
    def _strip_set(self, chars):
        if chars is None:
            return _WS
        if _isinstance(chars, SymStr):
            raise Unsupported("strip with symbolic char set")
        return chars

    def rstrip(self, chars=None):
        cs = self._strip_set(chars)
        items = list(self.items)
        while items and self._dec(_z3or(ceq(items[-1], ch) for ch in cs)):
            items.pop()
        return mk(items)

    def lstrip(self, chars=None):
        cs = self._strip_set(chars)
        items = list(self.items)
        while items and self._dec(_z3or(ceq(items[0], ch) for ch in cs)):
            items.pop(0)
        return mk(items)

    def strip(self, chars=None):
        r = self.lstrip(chars)
        return r.rstrip(chars) if _isinstance(r, SymStr) else r.rstrip(chars)

    def removeprefix(self, p):
        if self.startswith(p):
            return mk(self.items[_len(items_of(p)):])
        return self

    def removesuffix(self, p):
        if items_of(p) and self.endswith(p):
            return mk(self.items[: -_len(items_of(p))])
        return self

    # -- classes (ASCII model: harness domains must stay inside ASCII unless stated)
    def _all(self, pred, pyname):
        if not self.items:
            return False
        terms = []
        for c in self.items:
            if _isinstance(c, _str):
                if not getattr(c, pyname)():
                    return False
            else:
                terms.append(pred(c))
        return self._dec(_z3and(terms))

    def isdigit(self):
        return self._all(lambda c: z3.And(c >= 48, c <= 57), "isdigit")

    isdecimal = isdigit
    isnumeric = isdigit

    def isalpha(self):
        return self._all(lambda c: z3.Or(z3.And(c >= 65, c <= 90), z3.And(c >= 97, c <= 122), _nonascii_alpha(c)), "isalpha")

    def isalnum(self):
        return self._all(
            lambda c: z3.Or(z3.And(c >= 48, c <= 57), z3.And(c >= 65, c <= 90), z3.And(c >= 97, c <= 122), _nonascii_alpha(c)),
            "isalnum",
        )

    def isspace(self):
        return self._all(lambda c: z3.Or(z3.And(c >= 9, c <= 13), c == 32, z3.And(c >= 28, c <= 31)), "isspace")

    def isupper(self):
        raise Unsupported("isupper")

    def islower(self):
        raise Unsupported("islower")

    def isascii(self):
        if not self.items:
            return True
        return self._dec(_z3and(code(c) < 128 for c in self.items))

    def lower(self):
        out = []
        for c in self.items:
            if _isinstance(c, _str):
                out.append(c.lower())
            else:
                if self._dec(c >= 128):
                    raise Unsupported("lower() of non-ASCII symbolic char")
                out.append(z3.If(z3.And(c >= 65, c <= 90), c + 32, c))
        return mk(out)

    def upper(self):
        out = []
        for c in self.items:
            if _isinstance(c, _str):
                out.append(c.upper())
            else:
                if self._dec(c >= 128):
                    raise Unsupported("upper() of non-ASCII symbolic char")
                out.append(z3.If(z3.And(c >= 97, c <= 122), c - 32, c))
        return mk(out)

    def replace(self, old, new, count=-1):
        old = items_of(old)
        new = items_of(new)
        if not old:
            raise Unsupported("replace of empty string")
        out, i, n = [], 0, 0
        while i < _len(self.items):
            if (count < 0 or n < count) and self._match_at(i, old):
                out += list(new)
                i += _len(old)
                n += 1
            else:
                out.append(self.items[i])
                i += 1
        return mk(out)

    def join(self, it):
        parts = list(it)
        out = []
        for k, p in enumerate(parts):
            if k:
                out += list(self.items)
            out += list(items_of(p))
        return mk(out)

    def translate(self, *a):
        raise Unsupported("translate")

    def encode(self, *a, **k):
        raise Unsupported("encode of SymStr")

    def format(self, *a, **k):
        raise Unsupported("format with SymStr template")

    def expandtabs(self, *a):
        raise Unsupported("expandtabs")

    def title(self):
        raise Unsupported("title")


def _nonascii_alpha(c):
    # Only the handful of non-ASCII letters used by harness alphabets are modelled.
    return z3.Or([c == x for x in NONASCII_ALPHA])


NONASCII_ALPHA = (0xE9,)  # 'é'


# ---------------------------------------------------------------- helpers for harnesses
def sstr(*parts):
    """build a SymStr from str pieces, z3 code points and lists thereof"""
    items = []
    for p in parts:
        if _isinstance(p, _str):
            items += list(p)
        elif _isinstance(p, SymStr):
            items += list(p.items)
        elif _isinstance(p, (list, tuple)):
            items += list(sstr(*p).items) if p else []
        else:
            items.append(p)
    return SymStr(items)


def concretize(x, m):
    """evaluate a (nested) value under model m into plain python"""
    if _isinstance(x, SymBool):
        return z3.is_true(m.eval(x.e, model_completion=True))
    if _isinstance(x, SymInt):
        v = m.eval(x.e, model_completion=True)
        return v.as_long()
    if _isinstance(x, SymStr):
        return "".join(c if _isinstance(c, _str) else _chr(m.eval(c, model_completion=True).as_long()) for c in x.items)
    if _isinstance(x, z3.BoolRef):
        return z3.is_true(m.eval(x, model_completion=True))
    if _isinstance(x, (z3.ArithRef, z3.BitVecRef)):
        return m.eval(x, model_completion=True).as_long()
    if _isinstance(x, tuple):
        return tuple(concretize(y, m) for y in x)
    if _isinstance(x, list):
        return [concretize(y, m) for y in x]
    if _isinstance(x, dict):
        return {concretize(k, m): concretize(v, m) for k, v in x.items()}
    if _isinstance(x, (set, frozenset)):
        return sorted(concretize(y, m) for y in x)
    return x


def plain(x):
    """turn constant-valued sym values (produced by non-forking combinators on concrete inputs) into python values"""
    if _isinstance(x, SymBool):
        e = z3.simplify(x.e)
        if z3.is_true(e):
            return True
        if z3.is_false(e):
            return False
        raise RuntimeError("native observation is still symbolic: %r" % (x,))
    if _isinstance(x, SymInt):
        e = z3.simplify(x.e)
        if z3.is_int_value(e) or z3.is_bv_value(e):
            return e.as_long()
        raise RuntimeError("native observation is still symbolic: %r" % (x,))
    if _isinstance(x, SymStr):
        r = mk(x.items)
        if _isinstance(r, _str):
            return r
        raise RuntimeError("native observation is still symbolic: %r" % (x,))
    if _isinstance(x, z3.BoolRef):
        return plain(SymBool(x))
    if _isinstance(x, (z3.ArithRef, z3.BitVecRef)):
        return plain(SymInt(x))
    if _isinstance(x, tuple):
        return tuple(plain(y) for y in x)
    if _isinstance(x, list):
        return [plain(y) for y in x]
    if _isinstance(x, dict):
        return {k: plain(v) for k, v in x.items()}
    return x


def eq_term(a, b):
    """structural equality of two (nested) observation values as a z3 Bool"""
    if _isinstance(a, (SymBool, z3.BoolRef)) or _isinstance(b, (SymBool, z3.BoolRef)):
        if _isinstance(a, (SymBool, z3.BoolRef, _bool)) and _isinstance(b, (SymBool, z3.BoolRef, _bool)):
            return unwrap_bool(a) == unwrap_bool(b)
        return z3.BoolVal(False)
    if _isinstance(a, (SymInt, z3.ArithRef, z3.BitVecRef)) or _isinstance(b, (SymInt, z3.ArithRef, z3.BitVecRef)):
        la, lb = lift(a), lift(b)
        if la is None or lb is None:
            return z3.BoolVal(False)
        la, lb = _coerce(la, lb)
        return la == lb
    if _isinstance(a, SymStr) or _isinstance(b, SymStr):
        if not _isinstance(a, (_str, SymStr)) or not _isinstance(b, (_str, SymStr)):
            return z3.BoolVal(False)
        ai, bi = items_of(a), items_of(b)
        if _len(ai) != _len(bi):
            return z3.BoolVal(False)
        return _z3and(ceq(x, y) for x, y in zip(ai, bi))
    if _isinstance(a, (tuple, list)) and _isinstance(b, (tuple, list)):
        if _len(a) != _len(b):
            return z3.BoolVal(False)
        return _z3and(eq_term(x, y) for x, y in zip(a, b))
    if _isinstance(a, dict) and _isinstance(b, dict):
        if set(a) != set(b):
            return z3.BoolVal(False)
        return _z3and(eq_term(a[k], b[k]) for k in a)
    return z3.BoolVal(a == b)


def ite(c, a, b):
    """symbolic if-then-else over SymInt/SymBool/python numbers (no fork)"""
    c = unwrap_bool(c)
    if _isinstance(a, (SymBool, _bool)) and _isinstance(b, (SymBool, _bool)):
        return SymBool(z3.If(c, unwrap_bool(a), unwrap_bool(b)))
    la, lb = lift(a), lift(b)
    la, lb = _coerce(la, lb)
    return SymInt(z3.If(c, la, lb))


def sym_and(*xs):
    return SymBool(_z3and(unwrap_bool(x) for x in xs))


def sym_or(*xs):
    return SymBool(_z3or(unwrap_bool(x) for x in xs))


def sym_not(x):
    return SymBool(z3.Not(unwrap_bool(x)))


def implies(a, b):
    return SymBool(z3.Implies(unwrap_bool(a), unwrap_bool(b)))
