"""SX: symbolic execution of the real pkgcore code objects with proxy values + z3."""
from .core import *  # noqa
from .core import _z3and, _z3or  # noqa
from . import core, shims, lower  # noqa
