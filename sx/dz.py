"""DZ: direct z3 obligations on artefacts produced by the real code (clause lists,
evaluated dependency sets, solver outputs, regexes).  Thin counted wrapper."""
import time

import z3


class DZ:
    def __init__(self, timeout_ms=30000):
        self.queries = 0
        self.solver_s = 0.0
        self.timeout_ms = timeout_ms

    def check(self, *assertions):
        """returns ('unsat', None) | ('sat', model) | ('unknown', reason)"""
        s = z3.Solver()
        s.set("timeout", self.timeout_ms)
        s.add(*assertions)
        t = time.time()
        r = s.check()
        self.solver_s += time.time() - t
        self.queries += 1
        if r == z3.sat:
            return "sat", s.model()
        if r == z3.unsat:
            return "unsat", None
        return "unknown", s.reason_unknown()

    def result(self, ob, status, **kw):
        r = {"oid": ob["oid"], "ob": ob, "status": status, "queries": self.queries, "solver_s": round(self.solver_s, 4),
             "paths": kw.pop("paths", 1), "decisions": kw.pop("decisions", self.queries), "replays": kw.pop("replays", 1), "nvars": kw.pop("nvars", 1)}
        r.update(kw)
        return r


def exactly_one(xs):
    xs = list(xs)
    return z3.PbEq([(x, 1) for x in xs], 1) if xs else z3.BoolVal(False)


def at_most_one(xs):
    xs = list(xs)
    return z3.PbLe([(x, 1) for x in xs], 1) if xs else z3.BoolVal(True)
