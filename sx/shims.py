"""Sym-aware versions of builtins, bound as *module globals* of the module under
test for the duration of an obligation (LOAD_GLOBAL consults module globals
before builtins; the code objects are untouched), plus the symbolic regex
matcher and symbolic character sets."""
import collections
import contextlib
import re
import re._constants as C
import re._parser as sre_parse

import z3

from . import core
from .core import SymBool, SymInt, SymStr, Unsupported, ceq, code, engine, items_of, mk

_int, _str, _ord, _len, _hash, _isinstance, _chr, _bool, _sorted, _repr = int, str, ord, len, hash, isinstance, chr, bool, sorted, repr


def sym_int(x=0, *a):
    if _isinstance(x, SymStr):
        if a:
            raise Unsupported("int(symstr, base)")
        if not x.items:
            raise ValueError("invalid literal for int() with base 10: ''")
        eng = engine()
        alld = core._z3and(z3.And(code(c) >= 48, code(c) <= 57) for c in x.items)
        if eng.decide(alld):
            e = z3.IntVal(0)
            for c in x.items:
                e = e * 10 + (code(c) - 48)
            return SymInt(z3.simplify(e))
        odd = core._z3or(core._z3or(ceq(c, w) for w in "+-_ \t\n\r\x0b\x0c") for c in x.items)
        if eng.decide(odd):
            raise Unsupported("int() of symbolic string with sign/space/underscore")
        if eng.decide(core._z3or(code(c) >= 128 for c in x.items)):
            raise Unsupported("int() of symbolic non-ASCII string")
        raise ValueError("invalid literal for int() with base 10: <sym>")
    if _isinstance(x, SymInt):
        return x
    if _isinstance(x, SymBool):
        return SymInt(core.lift(x))
    d = getattr(x, "data", None)
    if _isinstance(d, SymStr) and not a:  # collections.UserString holding a symbolic string
        return sym_int(d)
    return _int(x, *a)


def int_to_str(x, max_digits=7):
    """decimal rendering of a SymInt: forks on sign and number of digits (bounded)"""
    eng = engine()
    e = x.e
    if z3.is_bv(e):
        e = z3.BV2Int(e)
    neg = eng.decide(e < 0)
    if neg:
        e = -e
    n = 1
    while n <= max_digits and not eng.decide(e < 10 ** n):
        n += 1
    if n > max_digits:
        raise Unsupported("str() of symbolic integer with more than %d digits" % max_digits)
    items = ["-"] if neg else []
    for k in range(n - 1, -1, -1):
        items.append(z3.simplify((e / (10 ** k)) % 10 + 48))
    return mk(tuple(c if not z3.is_int_value(c) else _chr(c.as_long()) for c in items))


def sym_ord(x):
    if _isinstance(x, SymStr):
        if _len(x.items) != 1:
            raise TypeError("ord() expected a character")
        return SymInt(x.items[0])
    return _ord(x)


def sym_chr(x):
    if _isinstance(x, SymInt):
        return SymStr((x.e,))
    return _chr(x)


def sym_str(x="", *a):
    if _isinstance(x, SymStr):
        return x
    if _isinstance(x, SymInt):
        if core.ENG is not None and core.ENG.msgmode:
            return "<sym>"
        return int_to_str(x)
    if _isinstance(x, SymBool):
        if core.ENG is not None and core.ENG.msgmode:
            return "<sym>"
        return "True" if x else "False"
    return _str(x, *a)


def sym_repr(x):
    if core.is_sym(x):
        if core.ENG is not None and core.ENG.msgmode:
            return "<sym>"
        raise Unsupported("repr() of symbolic value")
    return _repr(x)


def sym_len(x):
    if _isinstance(x, SymStr):
        return _len(x.items)
    return _len(x)


def sym_bool(x=False):
    if _isinstance(x, SymBool):
        return x
    if _isinstance(x, SymInt):
        return SymBool(x.e != 0)
    return _bool(x)


_TYPEMAP = {}


def sym_isinstance(o, t):
    def m(x):
        return _TYPEMAP.get(x, x)

    if _isinstance(t, tuple):
        t = tuple(m(x) for x in t)
    else:
        t = m(t)
    ts = t if _isinstance(t, tuple) else (t,)
    if _isinstance(o, SymStr) and _str in ts:
        return True
    if _isinstance(o, SymInt) and _int in ts:
        return True
    if _isinstance(o, SymBool) and (_bool in ts or _int in ts):
        return True
    return _isinstance(o, t)


_SYMHASH_IDS = [0]


class SymHash(int):
    """result of hash() under the 'hash is injective on its argument' assumption.  An int subclass so
    that CPython accepts it as the return value of __hash__ (its int value is a unique id, which makes
    caches keyed on it miss); equality is decided on the key terms."""

    def __new__(cls, key):
        _SYMHASH_IDS[0] += 1
        o = int.__new__(cls, _SYMHASH_IDS[0])
        o.key = key
        return o

    def __eq__(self, o):
        if _isinstance(o, SymHash):
            return SymBool(core.eq_term(self.key, o.key))
        return False

    def __ne__(self, o):
        r = self.__eq__(o)
        return (not r) if _isinstance(r, _bool) else SymBool(z3.Not(r.e))

    __hash__ = int.__hash__


def hash_key(x):
    """canonical key term of a hash() argument"""
    if _isinstance(x, SymHash):
        return ("#", x.key)
    if _isinstance(x, tuple):
        return tuple(hash_key(y) for y in x)
    if _isinstance(x, frozenset):
        if any(core.is_sym(y) for y in x):
            raise Unsupported("hash of frozenset with symbolic members")
        return ("fs", tuple(_sorted(_repr(y) for y in x)))
    if core.is_sym(x) or _isinstance(x, (_str, _int, type(None), _bool)):
        return x
    if _isinstance(x, collections.UserString):
        return x.data  # hash(UserString) == hash(its data)
    if _isinstance(x, type) or callable(x) and not hasattr(type(x), "__attr_comparison__"):
        return ("obj", id(x))
    h = getattr(type(x), "__hash__", None)
    if h is None:
        raise TypeError(f"unhashable type: {type(x).__name__}")
    r = x.__hash__()  # runs the object's own __hash__ (which may call the shimmed hash)
    if _isinstance(r, SymHash):
        return ("#", r.key)
    return ("h", r)


def _has_sym(k):
    if _isinstance(k, SymHash) or core.is_sym(k):
        return True
    if _isinstance(k, tuple):
        return any(_has_sym(y) for y in k)
    return False


ALWAYS_SYMHASH = [False]


def sym_hash(x):
    """hash() under the injectivity assumption when the argument carries symbolic data; the real hash otherwise"""
    if ALWAYS_SYMHASH[0]:
        return SymHash(hash_key(x))
    if not _isinstance(x, SymHash) and not core.is_sym(x) and not _isinstance(x, tuple):
        try:
            return _hash(x)
        except Unsupported:
            pass
    k = hash_key(x)
    if not _has_sym(k):
        return _hash(x)
    return SymHash(k)


_TYPEMAP.update({sym_int: _int, sym_str: _str, sym_bool: _bool})

BUILTIN_SHIMS = {
    "int": sym_int,
    "ord": sym_ord,
    "chr": sym_chr,
    "str": sym_str,
    "len": sym_len,
    "bool": sym_bool,
    "isinstance": sym_isinstance,
    "repr": sym_repr,
    "hash": sym_hash,
}


@contextlib.contextmanager
def patched(*bindings):
    """bindings: (namespace_object_or_dict, name, value); restored on exit"""
    saved = []
    missing = object()
    try:
        for ns, name, val in bindings:
            d = ns if _isinstance(ns, dict) else None
            if d is not None:
                saved.append((ns, name, d.get(name, missing)))
                d[name] = val
            else:
                saved.append((ns, name, ns.__dict__.get(name, missing) if hasattr(ns, "__dict__") else getattr(ns, name, missing)))
                setattr(ns, name, val)
        yield
    finally:
        for ns, name, old in reversed(saved):
            if _isinstance(ns, dict):
                if old is missing:
                    ns.pop(name, None)
                else:
                    ns[name] = old
            elif old is missing:
                try:
                    delattr(ns, name)
                except AttributeError:
                    pass
            else:
                setattr(ns, name, old)


def builtin_bindings(module, names=("int", "ord", "str", "isinstance")):
    return [(module, n, BUILTIN_SHIMS[n]) for n in names]


# ---------------------------------------------------------------- regex
class SymMatch:
    def __init__(self, s, groups, end, ngroups, names):
        self.s, self._g, self._end, self._n, self._names = s, groups, end, ngroups, names

    def _span(self, i):
        if _isinstance(i, _str):
            i = self._names[i]
        if i == 0:
            return (self._start, self._end)
        return self._g.get(i)

    _start = 0

    def group(self, *idx):
        if not idx:
            idx = (0,)
        out = []
        for i in idx:
            sp = self._span(i)
            out.append(None if sp is None else mk(self.s.items[sp[0]:sp[1]]))
        return out[0] if _len(out) == 1 else tuple(out)

    def groups(self, default=None):
        return tuple(self.group(i) if self._g.get(i) is not None else default for i in range(1, self._n + 1))

    def groupdict(self, default=None):
        return {k: (self.group(v) if self._g.get(v) is not None else default) for k, v in self._names.items()}

    def start(self, i=0):
        sp = self._span(i)
        return -1 if sp is None else sp[0]

    def end(self, i=0):
        sp = self._span(i)
        return -1 if sp is None else sp[1]

    def span(self, i=0):
        sp = self._span(i)
        return (-1, -1) if sp is None else sp

    def __getitem__(self, i):
        return self.group(i)


def _cat_pred(a, cc):
    dig = z3.And(cc >= 48, cc <= 57)
    word = z3.Or(dig, z3.And(cc >= 65, cc <= 90), z3.And(cc >= 97, cc <= 122), cc == 95, core._nonascii_alpha(cc))
    space = z3.Or(z3.And(cc >= 9, cc <= 13), cc == 32, z3.And(cc >= 28, cc <= 31))
    if a is C.CATEGORY_DIGIT:
        return dig
    if a is C.CATEGORY_NOT_DIGIT:
        return z3.Not(dig)
    if a is C.CATEGORY_WORD:
        return word
    if a is C.CATEGORY_NOT_WORD:
        return z3.Not(word)
    if a is C.CATEGORY_SPACE:
        return space
    if a is C.CATEGORY_NOT_SPACE:
        return z3.Not(space)
    raise Unsupported(f"regex category {a}")


class SymRegex:
    """Backtracking matcher over SymStr whose character tests are z3 predicates.
    Follows Python's leftmost / greedy-first search order, so group spans are
    those `re` would report.  Delegates to the real pattern on concrete str."""

    def __init__(self, rx, flags=0):
        if hasattr(rx, "pattern") and not _isinstance(rx, _str):
            # compiled pattern or snakeoil demandload/delayed proxy
            pat, flags = rx.pattern, rx.flags
        else:
            pat = rx
        self.pattern = pat
        self.flags = flags
        self._real = re.compile(pat, flags & ~re.UNICODE if False else flags)
        self.tree = sre_parse.parse(pat, flags)
        self.groups = self._real.groups
        self.groupindex = dict(self._real.groupindex)
        if flags & (re.IGNORECASE | re.MULTILINE | re.VERBOSE) & ~re.VERBOSE:
            if flags & re.IGNORECASE or flags & re.MULTILINE:
                self._unsupported_flags = True
            else:
                self._unsupported_flags = False
        else:
            self._unsupported_flags = False

    def _charpred(self, op, av, c):
        cc = code(c)
        if op is C.LITERAL:
            return cc == av
        if op is C.NOT_LITERAL:
            return cc != av
        if op is C.ANY:
            return cc != 10 if not (self.flags & re.DOTALL) else z3.BoolVal(True)
        if op is C.IN:
            neg = False
            ors = []
            for o, a in av:
                if o is C.NEGATE:
                    neg = True
                elif o is C.LITERAL:
                    ors.append(cc == a)
                elif o is C.RANGE:
                    ors.append(z3.And(cc >= a[0], cc <= a[1]))
                elif o is C.CATEGORY:
                    ors.append(_cat_pred(a, cc))
                else:
                    raise Unsupported(f"regex class item {o}")
            e = core._z3or(ors)
            return z3.Not(e) if neg else e
        raise Unsupported(f"regex op {op}")

    def _m(self, seq, i, s, pos, g, k):
        if i == _len(seq):
            return k(pos, g)
        op, av = seq[i]
        if op in (C.LITERAL, C.NOT_LITERAL, C.ANY, C.IN):
            if pos >= _len(s.items):
                return None
            if engine().decide(z3.simplify(self._charpred(op, av, s.items[pos]))):
                return self._m(seq, i + 1, s, pos + 1, g, k)
            return None
        if op is C.AT:
            n = _len(s.items)
            if av in (C.AT_BEGINNING, C.AT_BEGINNING_STRING):
                return self._m(seq, i + 1, s, pos, g, k) if pos == 0 else None
            if av is C.AT_END_STRING:
                return self._m(seq, i + 1, s, pos, g, k) if pos == n else None
            if av is C.AT_END:
                if pos == n:
                    return self._m(seq, i + 1, s, pos, g, k)
                if pos == n - 1 and engine().decide(ceq(s.items[pos], "\n")):
                    return self._m(seq, i + 1, s, pos, g, k)
                return None
            raise Unsupported(f"regex anchor {av}")
        if op is C.SUBPATTERN:
            gid, add_f, del_f, sub = av
            if add_f or del_f:
                raise Unsupported("inline regex flags")

            def after(p, g2, gid=gid, pos=pos):
                if gid is not None:
                    g2 = dict(g2)
                    g2[gid] = (pos, p)
                return self._m(seq, i + 1, s, p, g2, k)

            return self._m(list(sub), 0, s, pos, g, after)
        if op is C.BRANCH:
            for alt in av[1]:
                r = self._m(list(alt), 0, s, pos, g, lambda p, g2: self._m(seq, i + 1, s, p, g2, k))
                if r is not None:
                    return r
            return None
        if op in (C.MAX_REPEAT, C.MIN_REPEAT):
            lo, hi, sub = av
            sub = list(sub)
            greedy = op is C.MAX_REPEAT

            def rep(count, p, g2):
                def more():
                    if hi is C.MAXREPEAT or count < hi:
                        return self._m(sub, 0, s, p, g2, lambda q, g3: rep(count + 1, q, g3) if (q > p or count < lo) else None)
                    return None

                def stop():
                    if count >= lo:
                        return self._m(seq, i + 1, s, p, g2, k)
                    return None

                for f in (more, stop) if greedy else (stop, more):
                    r = f()
                    if r is not None:
                        return r
                return None

            return rep(0, pos, g)
        if op is C.ASSERT_NOT or op is C.ASSERT:
            direction, sub = av
            if direction != 1:
                raise Unsupported("regex lookbehind")
            r = self._m(list(sub), 0, s, pos, g, lambda p, g2: (p, g2))
            ok = (r is not None) == (op is C.ASSERT)
            return self._m(seq, i + 1, s, pos, g, k) if ok else None
        raise Unsupported(f"regex op {op}")

    def _run(self, s, start, full):
        if self._unsupported_flags:
            raise Unsupported("regex flags IGNORECASE/MULTILINE on symbolic input")

        def fin(p, g):
            if full and p != _len(s.items):
                return None
            return (p, g)

        r = self._m(list(self.tree), 0, s, start, {}, fin)
        if r is None:
            return None
        m = SymMatch(s, r[1], r[0], self.groups, self.groupindex)
        m._start = start
        return m

    def match(self, s, *a):
        if _isinstance(s, _str):
            return self._real.match(s, *a)
        return self._run(s, a[0] if a else 0, False)

    def fullmatch(self, s):
        if _isinstance(s, _str):
            return self._real.fullmatch(s)
        return self._run(s, 0, True)

    def search(self, s, *a):
        if _isinstance(s, _str):
            return self._real.search(s, *a)
        for st in range(a[0] if a else 0, _len(s.items) + 1):
            m = self._run(s, st, False)
            if m is not None:
                return m
        return None

    def __getattr__(self, n):
        return getattr(self._real, n)


class SymReModule:
    """stand-in for the `re` module inside a module under test"""

    def __init__(self):
        self._cache = {}

    def compile(self, pat, flags=0):
        k = (pat, flags)
        if k not in self._cache:
            self._cache[k] = SymRegex(pat, flags)
        return self._cache[k]

    def match(self, pat, s, flags=0):
        return self.compile(pat, flags).match(s)

    def fullmatch(self, pat, s, flags=0):
        return self.compile(pat, flags).fullmatch(s)

    def search(self, pat, s, flags=0):
        return self.compile(pat, flags).search(s)

    def __getattr__(self, n):
        return getattr(re, n)


class SymCharSet(frozenset):
    """module-level character sets (e.g. atom.valid_slot_chars) with symbolic membership"""

    def issuperset(self, other):
        if _isinstance(other, SymStr) or (not _isinstance(other, (_str, frozenset, set)) and True):
            other = list(other) if not _isinstance(other, SymStr) else list(other.items)
            ok = True
            for c in other:
                if _isinstance(c, SymStr):
                    c = c.items[0]
                if _isinstance(c, _str):
                    if not frozenset.__contains__(self, c):
                        return False
                else:
                    if not engine().decide(core.char_in(c, "".join(_sorted(self)))):
                        return False
            return ok
        return frozenset.issuperset(self, other)

    def __contains__(self, c):
        if _isinstance(c, SymStr):
            if _len(c.items) != 1:
                return False
            return engine().decide(core.char_in(code(c.items[0]), "".join(_sorted(self))))
        return frozenset.__contains__(self, c)

    __hash__ = frozenset.__hash__
