import itertools, time, z3
import symx
from symx import *
from pkgcore.ebuild import cpv
real_ver_cmp = cpv.ver_cmp
cpv.int = sym_int; cpv.ord = sym_ord
cpv.suffix_regexp = SymRegex(cpv.suffix_regexp)

def comp(nm, l, cons):
    ds = [z3.Int(f"{nm}_{i}") for i in range(l)]
    cons += [z3.And(d >= 48, d <= 57) for d in ds]
    return ds
def val(ds):
    e = z3.IntVal(0)
    for d in ds: e = e * 10 + (d - 48)
    return e
# PMS reference for numeric components only (Algorithm 3.2/3.3) as a z3 term
def ref_numeric(A, B):
    # A,B lists of digit lists. returns z3 Int in {-1,0,1}
    def cmp_int(x, y): return z3.If(x < y, -1, z3.If(x > y, 1, 0))
    def stripped_lt(x, y):
        # compare digit strings after stripping trailing zeros, lexicographic (ascii)
        # pad: trailing zeros stripped == compare as sequences where trailing 0s are removed.
        # implement: effective length = index of last nonzero + 1
        def efflen(ds):
            e = z3.IntVal(0)
            for i, d in enumerate(ds): e = z3.If(d != 48, i + 1, e)
            return e
        la, lb = efflen(x), efflen(y)
        n = max(len(x), len(y))
        res = z3.If(la < lb, -1, z3.If(la > lb, 1, 0))
        for i in reversed(range(n)):
            ina = z3.BoolVal(i < len(x)) if True else None
            ai = x[i] if i < len(x) else None; bi = y[i] if i < len(y) else None
            a_in = z3.And(i < la) if ai is not None else z3.BoolVal(False)
            b_in = z3.And(i < lb) if bi is not None else z3.BoolVal(False)
            both = z3.And(a_in, b_in)
            if ai is not None and bi is not None:
                res = z3.If(both, z3.If(ai < bi, -1, z3.If(ai > bi, 1, res)), res)
        return res
    out = z3.If(z3.IntVal(len(A)) < len(B), -1, z3.If(z3.IntVal(len(A)) > len(B), 1, 0)) if len(A) != len(B) else z3.IntVal(0)
    out = z3.IntVal((len(A) > len(B)) - (len(A) < len(B)))
    for i in reversed(range(min(len(A), len(B)))):
        if i == 0:
            c = cmp_int(val(A[0]), val(B[0]))
        else:
            lead0 = z3.Or(A[i][0] == 48, B[i][0] == 48)
            c = z3.If(lead0, stripped_lt(A[i], B[i]), cmp_int(val(A[i]), val(B[i])))
        out = z3.If(c != 0, c, out)
    return out

t0 = time.time(); found = None; npairs = 0; paths = 0
shapes = [lens for n in (1, 2) for lens in itertools.product((1, 2, 3), repeat=n)]
for sa, sb in itertools.product(shapes, shapes):
    eng = Engine(); symx.ENG = eng
    cons = []
    A = [comp(f"a{i}", l, cons) for i, l in enumerate(sa)]
    B = [comp(f"b{i}", l, cons) for i, l in enumerate(sb)]
    eng.solver.add(cons)
    def S(C):
        items = []
        for i, ds in enumerate(C):
            if i: items.append(".")
            items += ds
        return SymStr(items)
    a, b = S(A), S(B)
    r = ref_numeric(A, B)
    def prop():
        got = cpv.ver_cmp(a, "", b, "")
        s = (got > 0) - (got < 0)
        return s == SymInt(r)
    m = eng.explore(prop)
    npairs += 1; paths += eng.paths
    if m is not None and found is None:
        def conc(C): return ".".join("".join(chr(m.eval(d, model_completion=True).as_long()) for d in ds) for ds in C)
        found = (conc(A), conc(B))
        print("CEX", found, "real ver_cmp:", real_ver_cmp(found[0], "", found[1], ""), "after %.1fs" % (time.time() - t0))
print("pairs", npairs, "paths", paths, "time %.1fs" % (time.time() - t0))
