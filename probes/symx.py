"""throwaway probe: proxy-based path-exploring symbolic executor over real code objects"""
import z3, time, re

class Engine:
    def __init__(self):
        self.solver = z3.Solver()
        self.prefix = []      # decisions to replay
        self.trace = []       # decisions taken this run
        self.queries = 0; self.solver_s = 0.0; self.paths = 0
    def check(self, *extra):
        t = time.time(); self.queries += 1
        r = self.solver.check(*extra)
        self.solver_s += time.time() - t
        return r
    def decide(self, expr):
        expr = z3.simplify(expr)
        if z3.is_true(expr): return True
        if z3.is_false(expr): return False
        i = len(self.trace)
        if i < len(self.prefix):
            val, forced = self.prefix[i]
        else:
            can_t = self.check(expr) == z3.sat
            can_f = self.check(z3.Not(expr)) == z3.sat
            if can_t and can_f: val, forced = True, False
            elif can_t: val, forced = True, True
            elif can_f: val, forced = False, True
            else: raise RuntimeError("infeasible path")
        self.trace.append((val, forced))
        self.solver.add(expr if val else z3.Not(expr))
        return val
    def explore(self, fn):
        """fn() -> z3 Bool 'ok' (or python bool); yields counterexample models"""
        self.prefix = []
        while True:
            self.solver.push(); self.trace = []
            ok = fn()
            self.paths += 1
            okx = ok.e if isinstance(ok, SymBool) else z3.BoolVal(bool(ok))
            if self.check(z3.Not(okx)) == z3.sat:
                m = self.solver.model(); self.solver.pop(); return m
            self.solver.pop()
            # backtrack
            t = self.trace
            while t and (t[-1][1] or t[-1][0] is False): t.pop()
            if not t: return None
            t[-1] = (False, True)
            self.prefix = t
ENG = None

def lift(x):
    if isinstance(x, SymInt): return x.e
    if isinstance(x, SymBool): return z3.If(x.e, 1, 0)
    if isinstance(x, bool): return z3.IntVal(int(x))
    if isinstance(x, int): return z3.IntVal(x)
    return None

class SymBool:
    def __init__(self, e): self.e = e
    def __bool__(self): return ENG.decide(self.e)
    def __eq__(self, o):
        if isinstance(o, SymBool): return SymBool(self.e == o.e)
        if isinstance(o, bool): return SymBool(self.e if o else z3.Not(self.e))
        return SymInt(lift(self)) == o
    def __ne__(self, o): return SymBool(z3.Not((self == o).e))
    def __sub__(self, o): return SymInt(lift(self) - lift(o))
    def __rsub__(self, o): return SymInt(lift(o) - lift(self))
    def __hash__(self): raise TypeError
class SymInt:
    def __init__(self, e): self.e = e
    def _b(self, o, f):
        l = lift(o)
        if l is None: return NotImplemented
        return f(self.e, l)
    def __eq__(self, o):
        l = lift(o)
        if l is None: return False
        return SymBool(self.e == l)
    def __ne__(self, o):
        l = lift(o)
        if l is None: return True
        return SymBool(self.e != l)
    def __lt__(self, o): return SymBool(self._b(o, lambda a,b: a<b))
    def __le__(self, o): return SymBool(self._b(o, lambda a,b: a<=b))
    def __gt__(self, o): return SymBool(self._b(o, lambda a,b: a>b))
    def __ge__(self, o): return SymBool(self._b(o, lambda a,b: a>=b))
    def __add__(self, o): return SymInt(self._b(o, lambda a,b: a+b))
    __radd__ = __add__
    def __sub__(self, o): return SymInt(self._b(o, lambda a,b: a-b))
    def __rsub__(self, o): return SymInt(self._b(o, lambda a,b: b-a))
    def __neg__(self): return SymInt(-self.e)
    def __mul__(self, o): return SymInt(self._b(o, lambda a,b: a*b))
    __rmul__ = __mul__
    def __bool__(self): return ENG.decide(self.e != 0)
    def __hash__(self): raise TypeError

class SymStr:
    """concrete length; items are 1-char str or z3 Int code points (with class tag)"""
    def __init__(self, items): self.items = tuple(items)
    @staticmethod
    def of(x): return x if isinstance(x, SymStr) else SymStr(tuple(x))
    def concrete(self): return all(isinstance(c, str) for c in self.items)
    def __len__(self): return len(self.items)
    def __bool__(self): return len(self.items) > 0
    def _ceq(self, a, b):
        if isinstance(a, str) and isinstance(b, str): return z3.BoolVal(a == b)
        ca = z3.IntVal(ord(a)) if isinstance(a, str) else a
        cb = z3.IntVal(ord(b)) if isinstance(b, str) else b
        return ca == cb
    def _code(self, a): return z3.IntVal(ord(a)) if isinstance(a, str) else a
    def __eq__(self, o):
        if o is None: return False
        if not isinstance(o, (str, SymStr)): return NotImplemented
        o = SymStr.of(o)
        if len(o) != len(self): return False
        return SymBool(z3.And([self._ceq(a, b) for a, b in zip(self.items, o.items)]) if self.items else z3.BoolVal(True))
    def __ne__(self, o):
        r = self.__eq__(o)
        if r is NotImplemented: return r
        if isinstance(r, bool): return not r
        return SymBool(z3.Not(r.e))
    def _lt(self, o):
        o = SymStr.of(o)
        # lexicographic
        res = z3.BoolVal(len(self) < len(o))  # if all common equal
        for a, b in reversed(list(zip(self.items, o.items))):
            ca, cb = self._code(a), self._code(b)
            res = z3.If(ca < cb, True, z3.If(ca > cb, False, res))
        return res
    def __lt__(self, o): return SymBool(self._lt(o))
    def __gt__(self, o): return SymBool(SymStr.of(o)._lt(self))
    def __getitem__(self, i):
        if isinstance(i, slice): return SymStr(self.items[i]).norm()
        c = self.items[i]
        return c if isinstance(c, str) else SymStr((c,))
    def norm(self):
        return "".join(self.items) if self.concrete() else self
    def __add__(self, o): return SymStr(self.items + SymStr.of(o).items)
    def __radd__(self, o): return SymStr(SymStr.of(o).items + self.items)
    def split(self, sep):
        # separators must be decidable: symbolic chars are known (by class) not to equal sep
        out, cur = [], []
        for c in self.items:
            if isinstance(c, str) and c == sep:
                out.append(SymStr(cur).norm()); cur = []
            else:
                if not isinstance(c, str) and ENG.decide(c == ord(sep)):
                    out.append(SymStr(cur).norm()); cur = []; continue
                cur.append(c)
        out.append(SymStr(cur).norm())
        return out
    def isalpha(self):
        return bool(SymBool(z3.And([z3.Or(z3.And(self._code(c) >= 65, self._code(c) <= 90), z3.And(self._code(c) >= 97, self._code(c) <= 122)) for c in self.items])))
    def rstrip(self, chars):
        items = list(self.items)
        while items and bool(SymBool(z3.Or([self._ceq(items[-1], ch) for ch in chars]))):
            items.pop()
        return SymStr(items).norm()
    def __hash__(self): return id(self)
    def __repr__(self): return f"SymStr({self.items})"

_int = int; _ord = ord
def sym_int(x=0, *a):
    if isinstance(x, SymStr):
        e = z3.IntVal(0)
        for c in x.items:
            d = (z3.IntVal(_ord(c)) if isinstance(c, str) else c) - 48
            e = e * 10 + d
        return SymInt(z3.simplify(e))
    if isinstance(x, SymInt): return x
    return _int(x, *a)
def sym_ord(x):
    if isinstance(x, SymStr):
        assert len(x) == 1
        return SymInt(x.items[0])
    return _ord(x)

class SymRegex:
    """regex on SymStr by class abstraction: valid when pattern has no digit literals and symbolic chars are digits"""
    def __init__(self, rx): self.rx = rx
    def match(self, s):
        if isinstance(s, str): return self.rx.match(s)
        conc = "".join(c if isinstance(c, str) else "7" for c in s.items)
        m = self.rx.match(conc)
        if m is None: return None
        return SymMatch(m, s)
class SymMatch:
    def __init__(self, m, s): self.m, self.s = m, s
    def group(self, i):
        a, b = self.m.span(i)
        return SymStr(self.s.items[a:b]).norm()

# ---- extensions for the lowering probe ----
class Unsupported(Exception): pass

def _code(c): return z3.IntVal(ord(c)) if isinstance(c, str) else c
def _items(x): return x.items if isinstance(x, SymStr) else tuple(x)

def _ss_find(self, sub, start=0, end=None):
    n = len(self.items)
    if end is None or end > n: end = n
    if end < 0: end = max(0, n + end)   # python semantics for negative end
    if start < 0: start = max(0, n + start)
    sub = _items(sub)
    for i in range(start, end - len(sub) + 1):
        cond = z3.And([self._ceq(self.items[i + j], sub[j]) for j in range(len(sub))]) if sub else z3.BoolVal(True)
        if bool(SymBool(cond)): return i
    return -1
SymStr.find = _ss_find
def _ss_startswith(self, p):
    p = _items(p)
    if len(p) > len(self.items): return False
    return bool(SymBool(z3.And([self._ceq(a, b) for a, b in zip(self.items, p)]) if p else z3.BoolVal(True)))
SymStr.startswith = _ss_startswith
def _ss_endswith(self, p):
    p = _items(p)
    if len(p) > len(self.items): return False
    if not p: return True
    return bool(SymBool(z3.And([self._ceq(a, b) for a, b in zip(self.items[-len(p):], p)])))
SymStr.endswith = _ss_endswith
def _ss_iter(self):
    for c in self.items: yield c if isinstance(c, str) else SymStr((c,))
SymStr.__iter__ = _ss_iter
def _ss_split(self, sep=None, maxsplit=-1):
    assert sep is not None and len(sep) == 1
    out, cur, n = [], [], 0
    for c in self.items:
        if (maxsplit < 0 or n < maxsplit) and bool(SymBool(self._ceq(c, sep))):
            out.append(SymStr(cur).norm()); cur = []; n += 1
        else: cur.append(c)
    out.append(SymStr(cur).norm()); return out
SymStr.split = _ss_split
def _ss_rsplit(self, sep, maxsplit=-1):
    assert len(sep) == 1
    out, cur, n = [], [], 0
    for c in reversed(self.items):
        if (maxsplit < 0 or n < maxsplit) and bool(SymBool(self._ceq(c, sep))):
            out.append(SymStr(reversed(cur)).norm()); cur = []; n += 1
        else: cur.append(c)
    out.append(SymStr(list(reversed(cur))).norm()); return list(reversed(out))
SymStr.rsplit = _ss_rsplit
def _ss_isdigit(self):
    if not self.items: return False
    return bool(SymBool(z3.And([z3.And(_code(c) >= 48, _code(c) <= 57) for c in self.items])))
SymStr.isdigit = _ss_isdigit

def sx_in(a, b):
    """a in b"""
    if isinstance(b, str) and isinstance(a, SymStr):
        if len(a) == 1:
            return bool(SymBool(z3.Or([a._ceq(a.items[0], ch) for ch in b]))) if b else False
        return SymStr.of(b).find(a) != -1
    if isinstance(b, SymStr):
        return b.find(a) != -1
    return a in b
def sx_join(sep, it):
    parts = list(it)
    if all(isinstance(p, str) for p in parts): return sep.join(parts)
    items = []
    for i, p in enumerate(parts):
        if i: items += list(sep)
        items += list(_items(p))
    return SymStr(items).norm()
def sx_fstr(*parts):
    if all(isinstance(p, str) for p in parts): return "".join(parts)
    items = []
    for p in parts:
        if isinstance(p, (str, SymStr)): items += list(_items(p))
        else: items += list(str(p))
    return SymStr(items).norm()
_isinstance = isinstance
def sym_isinstance(o, t):
    if t is sym_str: t = _str
    elif _isinstance(t, tuple): t = tuple(_str if x is sym_str else (_int if x is sym_int else x) for x in t)
    elif t is sym_int: t = _int
    if _isinstance(o, SymStr) and (t is str or (_isinstance(t, tuple) and str in t)): return True
    return _isinstance(o, t)
_str = str
def sym_str(x=""):
    return x if isinstance(x, SymStr) else _str(x)
_bool = bool
_hash = hash
def sym_hash(x):
    if isinstance(x, SymStr): return id(x)
    return _hash(x)

import re._parser as sre_parse, re._constants as C
class FullSymRegex:
    """anchored-match of simple patterns over SymStr, with char predicates as z3 terms; forks via SymBool"""
    def __init__(self, rx):
        self.rx = rx if hasattr(rx, "pattern") and isinstance(getattr(rx, "pattern"), str) else rx
        pat = rx.pattern if hasattr(rx, "pattern") else rx
        self.pattern = pat
        self.tree = sre_parse.parse(pat)
        self._real = re.compile(pat)
    def _charpred(self, op, av, c):
        cc = _code(c)
        if op is C.LITERAL: return cc == av
        if op is C.NOT_LITERAL: return cc != av
        if op is C.ANY: return cc != 10
        if op is C.IN:
            neg = False; ors = []
            for o, a in av:
                if o is C.NEGATE: neg = True
                elif o is C.LITERAL: ors.append(cc == a)
                elif o is C.RANGE: ors.append(z3.And(cc >= a[0], cc <= a[1]))
                elif o is C.CATEGORY:
                    if a is C.CATEGORY_DIGIT: ors.append(z3.And(cc >= 48, cc <= 57))
                    elif a is C.CATEGORY_WORD: ors.append(z3.Or(z3.And(cc >= 48, cc <= 57), z3.And(cc >= 65, cc <= 90), z3.And(cc >= 97, cc <= 122), cc == 95))
                    else: raise Unsupported(f"category {a}")
                else: raise Unsupported(str(o))
            e = z3.Or(ors) if ors else z3.BoolVal(False)
            return z3.Not(e) if neg else e
        raise Unsupported(str(op))
    def _m(self, seq, i, s, pos, k):
        # continuation-passing backtracking matcher; returns end pos or None
        if i == len(seq): return k(pos)
        op, av = seq[i]
        if op in (C.LITERAL, C.NOT_LITERAL, C.ANY, C.IN):
            if pos >= len(s.items): return None
            if bool(SymBool(self._charpred(op, av, s.items[pos]))):
                return self._m(seq, i + 1, s, pos + 1, k)
            return None
        if op is C.AT:
            if av in (C.AT_BEGINNING, C.AT_BEGINNING_STRING):
                return self._m(seq, i + 1, s, pos, k) if pos == 0 else None
            if av in (C.AT_END, C.AT_END_STRING):
                return self._m(seq, i + 1, s, pos, k) if pos == len(s.items) else None  # newline-before-end ignored: alphabet excludes \n
            raise Unsupported(str(av))
        if op is C.SUBPATTERN:
            g, _, _, sub = av
            return self._m(list(sub), 0, s, pos, lambda p: self._m(seq, i + 1, s, p, k))
        if op is C.BRANCH:
            for alt in av[1]:
                r = self._m(list(alt), 0, s, pos, lambda p: self._m(seq, i + 1, s, p, k))
                if r is not None: return r
            return None
        if op in (C.MAX_REPEAT, C.MIN_REPEAT):
            lo, hi, sub = av; sub = list(sub)
            def rep(count, p):
                if hi is C.MAXREPEAT or count < hi:
                    r = self._m(sub, 0, s, p, lambda q: rep(count + 1, q) if q > p else None)
                    if r is not None: return r
                if count >= lo: return self._m(seq, i + 1, s, p, k)
                return None
            return rep(0, pos)
        raise Unsupported(str(op))
    def match(self, s):
        if isinstance(s, str): return self._real.match(s)
        r = self._m(list(self.tree), 0, s, 0, lambda p: p)
        return None if r is None else True

def _ss_isalnum(self):
    if not self.items: return False
    def al(c):
        cc = _code(c)
        return z3.Or(z3.And(cc >= 48, cc <= 57), z3.And(cc >= 65, cc <= 90), z3.And(cc >= 97, cc <= 122), cc >= 192)  # coarse: letters above latin-1 start treated alnum; probe only
    return bool(SymBool(z3.And([al(c) for c in self.items])))
SymStr.isalnum = _ss_isalnum
def _ss_isalpha2(self):
    return bool(SymBool(z3.And([z3.Or(z3.And(_code(c) >= 65, _code(c) <= 90), z3.And(_code(c) >= 97, _code(c) <= 122)) for c in self.items]))) if self.items else False
SymStr.isalpha = _ss_isalpha2
def _ss_replace(self, old, new):
    assert len(old) == 1
    out = []
    for c in self.items:
        if bool(SymBool(self._ceq(c, old))): out += list(new)
        else: out.append(c)
    return SymStr(out).norm()
SymStr.replace = _ss_replace
