import time, z3, re, itertools
import re._parser as sre_parse, re._constants as C
from pkgcore.util import parserestrict
from pkgcore.restrictions import values

ALPHA = z3.Union(z3.Range("a", "z"), z3.Range("A", "Z"), z3.Range("0", "9"), z3.Re("+"), z3.Re("_"), z3.Re("."), z3.Re("-"))
ANYSTR = z3.Star(ALPHA)

def to_z3(pattern):
    """translate the python regex subset convert_glob can emit to a z3 regex over the field alphabet; anchored both ends required"""
    tree = list(sre_parse.parse(pattern))
    assert tree[0] == (C.AT, C.AT_BEGINNING) and tree[-1] == (C.AT, C.AT_END), pattern
    parts = []
    for op, av in tree[1:-1]:
        if op is C.LITERAL: parts.append(z3.Re(chr(av)))
        elif op is C.MAX_REPEAT:
            lo, hi, sub = av
            assert lo == 0 and hi is C.MAXREPEAT and list(sub) == [(C.ANY, None)], av
            parts.append(ANYSTR)      # '.' restricted to the field alphabet
        else: raise NotImplementedError(op)
    if not parts: return z3.Re("")
    return parts[0] if len(parts) == 1 else z3.Concat(*parts)

def ref(glob):
    parts = []
    for ch in glob:
        parts.append(ANYSTR if ch == "*" else z3.Re(ch))
    return parts[0] if len(parts) == 1 else z3.Concat(*parts)

lits = "a.+-_1"
globs = set()
for n in range(1, 5):
    for tup in itertools.product(lits + "*", repeat=n):
        g = "".join(tup)
        if "*" in g and g not in ("*",): globs.add(g)
globs = sorted(globs)
t0 = time.time(); ok = bad = skipped = unk = 0
s = z3.String("s")
for g in globs:
    try:
        r = parserestrict.convert_glob(g)
    except parserestrict.ParseError:
        skipped += 1; continue
    if r is None: skipped += 1; continue
    assert isinstance(r, values.StrRegex) and r.ismatch and not r.negate
    R1 = to_z3(r.regex); R2 = ref(g)
    sol = z3.Solver(); sol.set("timeout", 5000)
    sol.add(z3.InRe(s, ANYSTR), z3.Xor(z3.InRe(s, R1), z3.InRe(s, R2)))
    res = sol.check()
    if res == z3.unsat: ok += 1
    elif res == z3.sat: bad += 1; print("DIFF", g, r.regex, sol.model()[s])
    else: unk += 1
print(f"globs={len(globs)} equivalent={ok} differ={bad} unknown={unk} rejected/None={skipped} time={time.time()-t0:.1f}s")
