import z3, symx, warnings
from symx import *
from pkgcore.ebuild import cpv, restricts, atom as atom_mod
from types import SimpleNamespace as NS
cpv.int = sym_int; cpv.ord = sym_ord
cpv.suffix_regexp = SymRegex(cpv.suffix_regexp)
eng = Engine(); symx.ENG = eng
d = [z3.Int(f"d{i}") for i in range(4)]
eng.solver.add([z3.And(x >= 48, x <= 57) for x in d])
v1 = SymStr(["1", ".", d[0], d[1]]); v2 = SymStr(["1", ".", d[2], d[3]])
with warnings.catch_warnings(record=True) as w:
    warnings.simplefilter("always")
    try:
        r = restricts.VersionMatch(">=", v1, None)
        print("constructed", r, [str(x.message)[:80] for x in w])
    except Exception as e:
        print("ERR", type(e), e)
pkg = NS(version=v2, revision=cpv.Revision(""), fullver=v2)
def prop():
    m = r.match(pkg)
    exp = SymInt(d[2]*10+d[3]) >= SymInt(d[0]*10+d[1])
    # 1.0x style: leading zero -> string semantics; so restrict to no leading zeros
    return (m == exp)
eng.solver.add(d[0] != 48, d[2] != 48)
print("cex:", eng.explore(prop), "paths", eng.paths)
