import time, z3, sys
import symx; from symx import *
import lower
from pkgcore.ebuild import cpv as real_cpv, atom as real_atom, errors, eapi as eapi_mod
scpv = lower.shadow("pkgcore.ebuild.cpv")
for nm in ("suffix_regexp", "isvalid_version_re", "isvalid_cat_re", "_pkg_re"):
    setattr(scpv, nm, FullSymRegex(getattr(real_cpv, nm)))
satom = lower.shadow("pkgcore.ebuild.atom")
satom.cpv = scpv
scpv.atom = satom
class SymCharSet:
    def __init__(self, s): self.s = s
    def issuperset(self, chunk):
        if isinstance(chunk, str): return self.s.issuperset(chunk)
        return all(sx_in(c, "".join(sorted(self.s))) for c in chunk)
    def __contains__(self, c): return sx_in(c, "".join(sorted(self.s)))
    def __iter__(self): return iter(self.s)
satom.valid_slot_chars = SymCharSet(real_atom.valid_slot_chars)
satom.valid_repo_chars = SymCharSet(real_atom.valid_repo_chars)
# eapi.is_valid_use_flag uses a module regexp: patch module-global in real eapi (restored by process exit in this probe)
eapi_mod._valid_use_flag = FullSymRegex(eapi_mod._valid_use_flag)

# translator validation on concrete strings: shadow == real
good = ["cat/pkg", "=cat/pkg-1.0", ">=cat/pkg-1.0-r1:2/3=", "!!<cat/pkg-2_alpha1[a,-b,c(+)?]", "~cat/p-k-g-1.0b::repo", "=cat/pkg-1*", "cat/pkg:*"]
bad = ["cat/pkg-1.0", "=cat/pkg", "cat/pkg:", "=cat/pkg-1.0-r1-1", "cat/pkg[", "~cat/pkg-1-r1", "cat/pkg-1-2"]
for s in good + bad:
    def run(mod):
        try: return ("ok", str(mod.atom(s)))
        except errors.MalformedAtom: return ("bad",)
    assert run(satom) == run(real_atom), (s, run(satom), run(real_atom))
print("concrete differential ok")

def accepts(mod, s, eapi="8"):
    try:
        mod.atom(s, eapi=eapi); return True
    except errors.MalformedAtom:
        return False

def obligation(prefix, suffix, ref):
    eng = Engine(); symx.ENG = eng
    c = z3.Int("c"); eng.solver.add(c >= 33, c <= 126)
    s = SymStr(list(prefix) + [c] + list(suffix))
    def prop():
        got = accepts(satom, s)
        return SymBool(ref(c)) == got if not isinstance(got, SymBool) else got == SymBool(ref(c))
    t = time.time()
    m = eng.explore(prop)
    if m is not None:
        ch = chr(m.eval(c, model_completion=True).as_long())
        conc = prefix + ch + suffix
        print("  CEX char", repr(ch), "real accepts:", accepts(real_atom, conc), "ref:", z3.is_true(m.eval(ref(c), model_completion=True)))
    print(f"  paths={eng.paths} queries={eng.queries} {time.time()-t:.2f}s cex={'yes' if m is not None else 'no'}")

def cls(c, chars="", alnum=True):
    ors = [c == ord(x) for x in chars]
    if alnum: ors += [z3.And(c >= 48, c <= 57), z3.And(c >= 65, c <= 90), z3.And(c >= 97, c <= 122)]
    return z3.Or(ors)
print("slot char: a/b:1?2")
# '/' makes slot/subslot 1/2 (valid in EAPI 8)
obligation("a/b:1", "2", lambda c: cls(c, "+_.-/"))
print("pkg name char: =cat/pk?g-1.0")
obligation("=cat/pk", "g-1.0", lambda c: cls(c, "+_-"))
print("version char: =cat/pkg-1?0")
obligation("=cat/pkg-1", "0", lambda c: z3.Or(z3.And(c >= 48, c <= 57), c == ord(".")))
print("use flag char: cat/pkg[a?b]")
obligation("cat/pkg[a", "b]", lambda c: cls(c, "+_@-,"))
