import itertools, time, z3
import symx; from symx import *
from pkgcore.restrictions import boolean, restriction, values, packages

class Leaf(restriction.base, caching=False):
    __slots__ = ("name", "type")
    def __init__(self, name):
        object.__setattr__(self, "name", name); object.__setattr__(self, "type", restriction.package_type)
    def match(self, pkg): return pkg[self.name]
    def __repr__(self): return f"L{self.name}"
KINDS = {"and": boolean.AndRestriction, "or": boolean.OrRestriction, "one": boolean.JustOneRestriction, "amo": boolean.AtMostOneOfRestriction}
def denote(node, env):
    if isinstance(node, Leaf): return env[node.name]
    if isinstance(node, restriction.Negate): return z3.Not(denote(node._restrict, env))
    ch = [denote(c, env) for c in node.restrictions]
    if isinstance(node, boolean.AndRestriction): r = z3.And(ch) if ch else z3.BoolVal(True)
    elif isinstance(node, boolean.OrRestriction): r = z3.Or(ch) if ch else z3.BoolVal(False)
    elif isinstance(node, boolean.JustOneRestriction):
        r = z3.PbEq([(c, 1) for c in ch], 1) if ch else z3.BoolVal(True)
    else: r = z3.PbLe([(c, 1) for c in ch], 1) if ch else z3.BoolVal(True)
    return z3.Not(r) if node.negate else r

def trees(depth, leaves):
    if depth == 0:
        for l in leaves: yield ("leaf", l)
        return
    for l in leaves: yield ("leaf", l)
    for k in KINDS:
        for neg in (False, True):
            for n in (1, 2):
                for subs in itertools.product(list(trees(depth - 1, leaves)), repeat=n):
                    yield (k, neg, subs)
def build(t):
    if t[0] == "leaf": return Leaf(t[1])
    k, neg, subs = t
    return KINDS[k](*[build(s) for s in subs], negate=neg, node_type=restriction.package_type)

names = ["a", "b", "c"]
env = {n: z3.Bool(n) for n in names}
ts = list(trees(2, names)); print(len(ts), "trees")
t0 = time.time(); bad_match = bad_dnf = bad_cnf = ni = 0; paths = 0; first = {}
for t in ts:
    node = build(t)
    F = denote(node, env)
    # SX: real match() with symbolic leaf truth values
    eng = Engine(); symx.ENG = eng
    pkg = {n: SymBool(env[n]) for n in names}
    def prop():
        r = node.match(pkg)
        r = r.e if isinstance(r, SymBool) else z3.BoolVal(bool(r))
        return SymBool(r == F)
    m = eng.explore(prop); paths += eng.paths
    if m is not None:
        bad_match += 1; first.setdefault("match", (t, m))
    # DZ: dnf / cnf denotations
    for kind in ("dnf", "cnf"):
        fn = getattr(node, f"{kind}_solutions", None)
        if fn is None: continue
        try: sol = fn()
        except NotImplementedError: ni += 1; continue
        if kind == "dnf": G = z3.Or([z3.And([denote(x, env) for x in cl]) if cl else z3.BoolVal(True) for cl in sol]) if sol else z3.BoolVal(False)
        else: G = z3.And([z3.Or([denote(x, env) for x in cl]) if cl else z3.BoolVal(False) for cl in sol]) if sol else z3.BoolVal(True)
        s = z3.Solver(); s.add(z3.Xor(F, G))
        if s.check() == z3.sat:
            if kind == "dnf": bad_dnf += 1
            else: bad_cnf += 1
            first.setdefault(kind, (t, s.model(), sol))
print(f"trees={len(ts)} match_paths={paths} bad_match={bad_match} bad_dnf={bad_dnf} bad_cnf={bad_cnf} notimpl={ni} time={time.time()-t0:.1f}s")
for k, v in first.items(): print(k, v[0], v[1], *v[2:])
