import ast, sys, types, importlib, importlib.util
import symx

class Lower(ast.NodeTransformer):
    def visit_JoinedStr(self, node):
        self.generic_visit(node)
        parts = []
        for v in node.values:
            if isinstance(v, ast.Constant): parts.append(v)
            else:
                if v.format_spec is not None or v.conversion not in (-1,):
                    # keep formatted pieces native: format(value) of concrete only
                    parts.append(ast.JoinedStr(values=[v]))
                else:
                    parts.append(v.value)
        return ast.copy_location(ast.Call(func=ast.Name("SX_FSTR", ast.Load()), args=parts, keywords=[]), node)
    def visit_Call(self, node):
        self.generic_visit(node)
        f = node.func
        if isinstance(f, ast.Attribute) and f.attr == "join" and isinstance(f.value, ast.Constant) and isinstance(f.value.value, str) and len(node.args) == 1:
            return ast.copy_location(ast.Call(func=ast.Name("SX_JOIN", ast.Load()), args=[f.value, node.args[0]], keywords=[]), node)
        return node
    def visit_Compare(self, node):
        self.generic_visit(node)
        if len(node.ops) == 1 and isinstance(node.ops[0], (ast.In, ast.NotIn)):
            call = ast.Call(func=ast.Name("SX_IN", ast.Load()), args=[node.left, node.comparators[0]], keywords=[])
            if isinstance(node.ops[0], ast.NotIn):
                call = ast.UnaryOp(op=ast.Not(), operand=call)
            return ast.copy_location(call, node)
        return node

def shadow(modname, extra=None):
    real = importlib.import_module(modname)
    src = open(real.__file__).read()
    tree = Lower().visit(ast.parse(src, real.__file__))
    ast.fix_missing_locations(tree)
    code = compile(tree, real.__file__, "exec")
    m = types.ModuleType(modname)
    m.__file__ = real.__file__; m.__package__ = real.__package__; m.__spec__ = real.__spec__
    m.__dict__.update({"SX_FSTR": symx.sx_fstr, "SX_JOIN": symx.sx_join, "SX_IN": symx.sx_in,
                       "isinstance": symx.sym_isinstance, "str": symx.sym_str, "int": symx.sym_int, "ord": symx.sym_ord, "hash": symx.sym_hash})
    if extra: m.__dict__.update(extra)
    exec(code, m.__dict__)
    return m
