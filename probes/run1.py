import itertools, time, z3, sys
import symx
from symx import *
from pkgcore.ebuild import cpv
cpv.int = sym_int; cpv.ord = sym_ord
cpv.suffix_regexp = SymRegex(cpv.suffix_regexp)   # delayed regexp proxies .match
n = itertools.count()
def digits(k, nm): return [z3.Int(f"{nm}{i}") for i in range(k)]
def mk(shape, nm, cons):
    # shape: (tuple of comp lens, letter?, tuple of (suffixname, numlen))
    lens, letter, sufs = shape
    items = []
    for ci, l in enumerate(lens):
        if ci: items.append(".")
        ds = digits(l, f"{nm}c{ci}_"); cons += [z3.And(d >= 48, d <= 57) for d in ds]; items += ds
    if letter:
        L = z3.Int(f"{nm}L"); cons.append(z3.And(L >= 97, L <= 122)); items.append(L)
    for si, (sn, nl) in enumerate(sufs):
        items += list("_" + sn)
        ds = digits(nl, f"{nm}s{si}_"); cons += [z3.And(d >= 48, d <= 57) for d in ds]; items += ds
    return SymStr(items)
def sgn(x): return (x > 0) - (x < 0)

shapes = []
for ncomp in (1, 2):
    for lens in itertools.product((1, 2, 3), repeat=ncomp):
        for letter in (0, 1):
            for sufs in [(), (("p", 0),), (("p", 1),), (("alpha", 1),), (("rc", 2),)]:
                shapes.append((lens, letter, sufs))
print(len(shapes), "shapes")
import random; random.seed(0)
pairs = random.sample(list(itertools.product(shapes, shapes)), 300)
t0 = time.time(); tot_paths = tot_q = 0; cex = 0
for sa, sb in pairs:
    eng = symx.ENG = Engine(); symx.ENG = eng
    cons = []
    a = mk(sa, "a", cons); b = mk(sb, "b", cons)
    eng.solver.add(cons)
    def prop():
        return sgn(cpv.ver_cmp(a, "", b, "")) == -sgn(cpv.ver_cmp(b, "", a, ""))
    m = eng.explore(prop)
    tot_paths += eng.paths; tot_q += eng.queries
    if m is not None:
        cex += 1
print("pairs", len(pairs), "paths", tot_paths, "queries", tot_q, "cex", cex, "time %.1fs" % (time.time() - t0))
