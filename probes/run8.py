import time, z3
import symx; from symx import *
from pkgcore.package.conditionals import make_wrapper
from pkgcore.ebuild.conditionals import DepSet
from pkgcore.ebuild.atom import atom
from types import SimpleNamespace as NS

raw_dep = DepSet.parse("a? ( cat/x ) !a? ( cat/y ) b? ( cat/z )", atom)
class Raw:
    depend = raw_dep
    key = "cat/pkg"; cpvstr = "cat/pkg-1"
def evaluate(raw_attr, use, pkg=None): return raw_attr.evaluate_depset(use)
Wrapper = make_wrapper(None, "use", attributes_to_wrap={"depend": evaluate})

STALE = object()
def fresh_value(w): return str(Raw.depend.evaluate_depset(set(w._configurable)))

OPS = ["enable_a", "disable_a", "enable_b", "disable_c_locked", "rollback0", "commit"]
results = {}
for init_use in ([], ["a"], ["a", "b"]):
  for op in OPS:
    eng = Engine(); symx.ENG = eng
    pt = z3.Int("pt"); stamp = z3.Int("stamp"); is_fresh = z3.Bool("fresh")
    eng.solver.add(pt >= 0, stamp >= 0)
    # representation invariant: an entry stamped with the current point is fresh
    eng.solver.add(z3.Implies(stamp == pt, is_fresh))
    def prop():
        w = Wrapper(Raw(), initial_settings=list(init_use), unchangable_settings=["c"])
        object.__setattr__(w, "_reuse_pt", SymInt(pt))
        cached = w.depend if False else None
        # install a cache entry: value fresh or stale according to the symbolic bool
        val = Raw.depend.evaluate_depset(set(w._configurable)) if bool(SymBool(is_fresh)) else STALE
        w._cached_wrapped["depend"] = (SymInt(stamp), val)
        before = set(w._configurable)
        if op == "enable_a": ok = w.request_enable("use", "a")
        elif op == "disable_a": ok = w.request_disable("use", "a")
        elif op == "enable_b": ok = w.request_enable("use", "b")
        elif op == "disable_c_locked": ok = w.request_enable("use", "c")
        elif op == "rollback0": w.rollback(0); ok = True
        else: w.commit(); ok = True
        if not ok and set(w._configurable) != before: return False
        got = w.depend
        if got is STALE: return False
        return str(got) == fresh_value(w)
    m = eng.explore(prop)
    results[(tuple(init_use), op)] = (None if m is None else {str(d): m[d] for d in m.decls()}, eng.paths)
for k, v in results.items(): print(k, "paths", v[1], "CEX" if v[0] else "ok", v[0] or "")
