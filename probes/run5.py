import time, z3
import symx; from symx import *
import lower
sproc = lower.shadow("pkgcore.ebuild.processor")
from types import SimpleNamespace as NS
fake = NS(_readonly_vars=frozenset())
gen = sproc.EbuildProcessor._generate_env_str

def bash_decode_scalar(assign, key):
    """reference model of how bash reads KEY=...; returns SymStr/str of value or None if not modelled"""
    body = assign[len(key) + 1:]
    items = list(symx._items(body))
    out = []
    def eq(c, ch): return bool(SymBool(SymStr((c,))._ceq(c, ch))) if not isinstance(c, str) else c == ch
    if not items: return ""
    if eq(items[0], "'"):
        i = 1
        while not eq(items[i], "'"):
            out.append(items[i]); i += 1
        assert i == len(items) - 1
        return SymStr(out).norm()
    if eq(items[0], "$") and len(items) > 1 and eq(items[1], "'"):
        i = 2
        while i < len(items) and not eq(items[i], "'"):
            if eq(items[i], "\\"):
                nxt = items[i + 1]
                if eq(nxt, "'") : out.append("'")
                elif eq(nxt, "\\"): out.append("\\")
                elif eq(nxt, "n"): out.append("\n")
                elif eq(nxt, "t"): out.append("\t")
                elif eq(nxt, "a"): out.append("\a")
                else: out += [items[i], nxt]   # unknown escapes kept (bash keeps backslash for unknown)
                i += 2
            else:
                out.append(items[i]); i += 1
        if i != len(items) - 1: return None   # quote closed early => rest is garbage
        return SymStr(out).norm()
    return SymStr(items).norm()   # bare alnum word

ALPH = "a'\\n$"
def obligation(n):
    eng = Engine(); symx.ENG = eng
    cs = [z3.Int(f"c{i}") for i in range(n)]
    for c in cs: eng.solver.add(z3.Or([c == ord(x) for x in ALPH]))
    val = SymStr(cs)
    def prop():
        s = gen(fake, {"K": val})
        assert (s[:9] == "export K=") is True or bool(s[:9] == "export K=")
        dec = bash_decode_scalar(s[7:], "K")
        if dec is None: return False
        r = (dec == val)
        return r
    t = time.time(); m = eng.explore(prop)
    if m is not None:
        conc = "".join(chr(m.eval(c, model_completion=True).as_long()) for c in cs)
        import pkgcore.ebuild.processor as rp
        print("  CEX value", repr(conc), "-> real output:", repr(rp.EbuildProcessor._generate_env_str(fake, {"K": conc})))
    print(f"  n={n} paths={eng.paths} queries={eng.queries} {time.time()-t:.2f}s cex={'yes' if m is not None else 'no'}")
for n in (1, 2, 3):
    obligation(n)
