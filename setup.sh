#!/bin/bash
# Build the overlay venv (offline): /venv's python + its site-packages (pkgcore is an
# editable install pointing at /repo/src) + z3-solver / crosshair-tool / cvc5 from the wheelhouse.
set -e
cd "$(dirname "$0")"
V=.venv
if [ -x $V/bin/python ] && $V/bin/python -c 'import z3, pkgcore, snakeoil' 2>/dev/null; then
  exit 0
fi
rm -rf $V
/venv/bin/python -m venv $V
SP=$($V/bin/python -c 'import site; print(site.getsitepackages()[0])')
echo "import site; site.addsitedir('/venv/lib/python3.12/site-packages')" > $SP/verif_overlay.pth
PIP_NO_INDEX=1 $V/bin/pip install -q --no-index --find-links /opt/veriftools/wheels z3-solver >/dev/null
PIP_NO_INDEX=1 $V/bin/pip install -q --no-index --find-links /opt/veriftools/wheels crosshair-tool cvc5 >/dev/null 2>&1 || echo "note: crosshair/cvc5 wheels not installed (cross-checks disabled)"
$V/bin/python -c 'import z3, pkgcore, snakeoil; print("overlay ok: z3", z3.get_version_string(), "pkgcore", pkgcore.__file__)'
