#!/usr/bin/env python3
"""print the prompt given to a seeding sub-agent for property ID (only the property text + a worktree path)"""
import json, sys
pid = sys.argv[1]
p = [json.loads(l) for l in open("/verif/properties.jsonl") if json.loads(l)["id"] == pid][0]
wt = f"/tmp/wt/{pid}"
print(f"""You are working in a scratch git worktree of the pkgcore repository (a pure-Python Gentoo package-manager framework) at {wt}. Python is /venv/bin/python. pkgcore is installed "editable" from another checkout, so ALWAYS run things with PYTHONPATH={wt}/src so that the worktree's code is what gets imported. There is no network. Work ONLY inside {wt} and /tmp/seeded_out; never read or touch /repo or /verif.

The property below is something pkgcore is supposed to guarantee:

  id: {p['id']}
  title: {p['title']}
  statement: {p['statement']}
  quantified over: {p['quantifier']['text']}
  code involved: {', '.join(p['anchors']['files'])}

Your job: produce TWO independent, realistic changes to the source under {wt}/src (each a plausible slip a developer could introduce: a refactor mistake, an off-by-one, a wrong operator or default, a dropped case, a premature optimisation, or two cooperating edits that each look fine alone), each of which BREAKS this property while:
 (a) the code still imports and the whole existing test suite still passes exactly as before: `cd {wt} && PYTHONPATH={wt}/src /venv/bin/python -m pytest -q -p no:cacheprovider --timeout=900` shows 1661 passed and only the 4 pre-existing failures (test_system_bash_supports_bundled_eapis, test_top_level_with_feature, test_license_groups, test_sym_perms) — takes ~20 s;
 (b) the breakage needs something specific to manifest — an unusual input, a particular value boundary, a particular multi-step sequence of operations, a crash or fault at a particular point, or two sites cooperating — NOT something ordinary use or a casual smoke test would expose at once;
 (c) it is a semantic change to the real logic, not a deleted feature, not a raise/assert/print, not a change to tests.
The two changes must use different mechanisms (ideally different functions). Do not edit anything under tests/.

For each change X in (a, b) write into /tmp/seeded_out/{pid}X/:
  - patch.diff : `git -C {wt} diff` of ONLY that change (the other change reverted), applicable with `git apply` on the unchanged tree
  - demo.py    : a small self-contained program that exits 0 on the unchanged tree and exits non-zero (printing what went wrong) when the change is applied; run as `PYTHONPATH={wt}/src /venv/bin/python demo.py`
  - meta.json  : {{"property": "{pid}", "summary": "...", "needs_to_manifest": "...", "files_changed": [...], "commands_run": [...], "suite_result": "..."}}
Verify everything yourself (NEVER use `git stash`: it is shared between worktrees; revert with `git -C {wt} checkout -- .` and re-apply with `git -C {wt} apply patch.diff`): the demo passes with the change reverted and fails with it applied; the full suite result is unchanged with the change applied. When done, leave the worktree clean (`git -C {wt} checkout -- .`) and reply with a 5-line summary of the two changes. Be efficient: read the code involved, pick the two changes, verify, write the files.""")
