#!/bin/bash
# usage: tools/seed_sweep.sh [seed...]  - run every kept seed (default: all of /verif/seeded) against the quick check of its
# property and print one line per seed; /repo is restored after each. Do not run while other checks read /repo.
cd /verif
seeds=("$@")
[ ${#seeds[@]} -eq 0 ] && seeds=($(ls seeded | grep -E '^C[0-9]+[a-z]$'))
for s in "${seeds[@]}"; do
  pid=${s%?}
  [ -f props/$(echo $pid | tr 'C' 'c').py ] || { echo "$s: no check for $pid"; continue; }
  tools/seed.sh run $s $pid 2>&1 | grep -E "^$s vs|does not apply|uncommitted" | cut -c1-200
  git -C /repo checkout -- . 2>/dev/null
done
