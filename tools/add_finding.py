#!/usr/bin/env python3
"""usage: add_finding.py <replay.json> <finding-id> <region> <what...>  - append a 'known' entry to known_findings.json from a replay file"""
import json, sys
rp, fid, region = sys.argv[1:4]
what = " ".join(sys.argv[4:])
r = json.load(open(rp))
p = "/verif/known_findings.json"
d = json.load(open(p))
d["findings"] = [f for f in d["findings"] if f["id"] != fid]
d["findings"].append({"id": fid, "property": r["property"], "status": "known", "region": region, "what": what, "ob": r["ob"], "cinp": r["cinp"], "bad_obs": r["bad_obs"]})
json.dump(d, open(p, "w"), indent=1)
print("added", fid)
