#!/usr/bin/env python3
import json, sys
for l in open("/verif/properties.jsonl"):
    p = json.loads(l)
    if p["id"] in sys.argv[1:]:
        print("=====", p["id"], p["title"]); print(p["statement"]); print("Q:", p["quantifier"]["text"]); print("WHY:", p["why_tests_cant"])
        a = p["anchors"]; print("FILES:", a["files"]); print("MECH:", [(m["name"], m["where"]) for m in a.get("mechanism", [])]); print("OBS:", a.get("observe_at"))
