#!/usr/bin/env python3
"""Run the pinned suite in a repo tree (default /repo) and verify every stable_pass test of BASELINE.json passes.
usage: baseline_check.py [repo_dir]   (exit 0 = all 1661 stable tests pass)"""
import json, os, subprocess, sys, tempfile, xml.etree.ElementTree as ET
repo = sys.argv[1] if len(sys.argv) > 1 else "/repo"
b = json.load(open("/root/.vp/BASELINE.json"))
want = set(b["stable_pass"])
with tempfile.TemporaryDirectory() as td:
    x = os.path.join(td, "j.xml")
    env = dict(os.environ, PYTHONPATH=os.path.join(repo, "src"))
    subprocess.run(["/venv/bin/python", "-m", "pytest", "-q", "-p", "no:cacheprovider", "--timeout=900", "--continue-on-collection-errors", "--junitxml=" + x], cwd=repo, env=env, stdout=subprocess.DEVNULL, stderr=subprocess.DEVNULL)
    ok = set()
    for tc in ET.parse(x).getroot().iter("testcase"):
        if not any(c.tag in ("failure", "error", "skipped") for c in tc):
            ok.add(tc.get("classname") + "::" + tc.get("name"))
missing = sorted(want - ok)
print(f"stable_pass={len(want)} passing_now={len(want & ok)} missing={len(missing)}")
for m in missing[:20]:
    print("  NOT PASSING:", m)
sys.exit(1 if missing else 0)
