#!/usr/bin/env python3
"""Mutation campaign in a scratch worktree (never touches /repo):

  tools/mutate.py <src-file-relative-to-repo> <comma-separated check ids> <pytest targets...> [--n N] [--seed S] [--funcs a,b]

For every sampled mutant of the file: write it into the worktree, run the given pytest targets (a mutant the suite kills
is not a realistic change and is skipped), then run the quick tier of the given checks against the worktree
(PYTHONPATH=<worktree>/src).  Survivors of both are written to /tmp/mutants/<file>/<k>.diff for manual review.
"""
import ast
import copy
import difflib
import os
import random
import subprocess
import sys

WT = os.environ.get("MUT_WT", "/tmp/wt/mut")


def mutants(tree, funcs):
    """yield (description, mutated tree)"""
    sites = []

    class V(ast.NodeVisitor):
        def __init__(self):
            self.stack = []

        def visit_FunctionDef(self, node):
            self.stack.append(node.name)
            self.generic_visit(node)
            self.stack.pop()

        visit_AsyncFunctionDef = visit_FunctionDef

        def generic_visit(self, node):
            if self.stack and (not funcs or any(f in self.stack for f in funcs)):
                if isinstance(node, ast.Compare) and len(node.ops) == 1:
                    op = type(node.ops[0])
                    swaps = {ast.Lt: [ast.LtE, ast.GtE], ast.LtE: [ast.Lt], ast.Gt: [ast.GtE, ast.LtE], ast.GtE: [ast.Gt], ast.Eq: [ast.NotEq], ast.NotEq: [ast.Eq], ast.In: [ast.NotIn], ast.NotIn: [ast.In], ast.Is: [ast.IsNot], ast.IsNot: [ast.Is]}
                    for new in swaps.get(op, []):
                        sites.append((node, "cmp", new))
                elif isinstance(node, ast.BoolOp):
                    sites.append((node, "boolop", ast.Or if isinstance(node.op, ast.And) else ast.And))
                elif isinstance(node, ast.UnaryOp) and isinstance(node.op, ast.Not):
                    sites.append((node, "dropnot", None))
                elif isinstance(node, ast.Constant) and isinstance(node.value, bool):
                    sites.append((node, "bool", not node.value))
                elif isinstance(node, ast.Constant) and isinstance(node.value, int) and not isinstance(node.value, bool) and abs(node.value) <= 10:
                    sites.append((node, "int", node.value + 1))
                    if node.value:
                        sites.append((node, "int", node.value - 1))
                elif isinstance(node, ast.BinOp) and isinstance(node.op, (ast.Add, ast.Sub)):
                    sites.append((node, "arith", ast.Sub if isinstance(node.op, ast.Add) else ast.Add))
                elif isinstance(node, ast.Break):
                    sites.append((node, "break", None))
                elif isinstance(node, ast.Continue):
                    sites.append((node, "continue", None))
                elif isinstance(node, ast.If) and not node.orelse:
                    sites.append((node, "iftrue", None))
            super().generic_visit(node)

    V().visit(tree)
    for idx, (node, kind, arg) in enumerate(sites):
        t = copy.deepcopy(tree)
        # locate the same node in the copy by walking in the same order
        target = None
        count = -1

        for n in ast.walk(t):
            pass
        orig_nodes = list(ast.walk(tree))
        copy_nodes = list(ast.walk(t))
        target = copy_nodes[orig_nodes.index(node)]
        line = getattr(node, "lineno", 0)
        if kind == "cmp":
            target.ops = [arg()]
        elif kind == "boolop":
            target.op = arg()
        elif kind == "dropnot":
            target.op = ast.UAdd() if False else target.op
            # replace `not x` by `x`: mutate into `not not x`
            target.operand = ast.UnaryOp(op=ast.Not(), operand=target.operand)
        elif kind == "bool" or kind == "int":
            target.value = arg
        elif kind == "arith":
            target.op = arg()
        elif kind == "break":
            target.__class__ = ast.Continue
        elif kind == "continue":
            target.__class__ = ast.Break
        elif kind == "iftrue":
            target.test = ast.UnaryOp(op=ast.Not(), operand=target.test)
        ast.fix_missing_locations(t)
        yield f"{kind}@{line}", t


def sh(cmd, timeout, env=None):
    try:
        r = subprocess.run(cmd, shell=True, capture_output=True, text=True, timeout=timeout, env=env)
        return r.returncode, r.stdout + r.stderr
    except subprocess.TimeoutExpired:
        return 124, "timeout"


def main():
    args = sys.argv[1:]
    n, seed, funcs = 40, 0, []
    rest = []
    i = 0
    while i < len(args):
        if args[i] == "--n":
            n = int(args[i + 1]); i += 2
        elif args[i] == "--seed":
            seed = int(args[i + 1]); i += 2
        elif args[i] == "--funcs":
            funcs = args[i + 1].split(","); i += 2
        else:
            rest.append(args[i]); i += 1
    rel, checks, tests = rest[0], rest[1].split(","), rest[2:]
    if not os.path.isdir(WT):
        subprocess.run(["git", "-C", "/repo", "worktree", "add", "-q", "--detach", WT, "HEAD"], check=True)
    path = os.path.join(WT, rel)
    sh(f"git -C {WT} checkout -- .", 60)
    src = open(path).read()
    base = ast.unparse(ast.parse(src))
    ms = list(mutants(ast.parse(src), funcs))
    random.Random(seed).shuffle(ms)
    ms = ms[:n]
    env = dict(os.environ, PYTHONPATH=f"{WT}/src")
    # tests that already fail on the unmutated tree (environment-dependent) are not evidence against a mutant
    rc, out = sh(f"cd {WT} && /venv/bin/python -m pytest -q -p no:cacheprovider --timeout=300 -rf {' '.join(tests)} 2>&1 | grep '^FAILED' | cut -d' ' -f2", 1800, env)
    desel = " ".join(f"--deselect '{t}'" for t in out.split())
    print("baseline failures deselected:", out.split(), flush=True)
    outdir = os.path.join("/tmp/mutants", rel.replace("/", "_"))
    os.makedirs(outdir, exist_ok=True)
    stats = {"tests-killed": 0, "caught": 0, "survived": 0, "harness": 0}
    for k, (desc, t) in enumerate(ms):
        new = ast.unparse(t)
        if new == base:
            continue
        open(path, "w").write(new + "\n")
        rc, out = sh(f"cd {WT} && /venv/bin/python -m pytest -x -q -p no:cacheprovider --timeout=300 {desel} {' '.join(tests)} 2>&1 | tail -3", 900, env)
        if "passed" not in out or "failed" in out or "error" in out.lower():
            stats["tests-killed"] += 1
            print(f"[{k}] {desc}: killed by the tests", flush=True)
            continue
        verdict = "survived"
        for c in checks:
            rc, out = sh(f"cd /verif && nice -n 5 ./check {c} --tier quick 2>&1", 1800, env)
            out = out[-4000:]
            if rc == 1 and "VIOLATION" in out:
                verdict = f"caught by {c}"
                break
            if rc not in (0, 1):
                verdict = f"harness exit {rc} in {c}"
        diff = "".join(difflib.unified_diff(base.splitlines(True), new.splitlines(True), "a/" + rel, "b/" + rel, n=2))
        if verdict == "survived":
            stats["survived"] += 1
            open(os.path.join(outdir, f"{k}.diff"), "w").write(diff)
        elif verdict.startswith("caught"):
            stats["caught"] += 1
        else:
            stats["harness"] += 1
            open(os.path.join(outdir, f"{k}.harness.diff"), "w").write(diff + "\n" + out[-2000:])
        print(f"[{k}] {desc}: {verdict}", flush=True)
    sh(f"git -C {WT} checkout -- .", 60)
    print("SUMMARY", rel, stats, flush=True)


if __name__ == "__main__":
    main()
