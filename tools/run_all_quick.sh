#!/bin/bash
# usage: tools/run_all_quick.sh  - run every registered quick check on the current /repo tree, one line per check
cd /verif
for f in props/c[0-9][0-9].py; do
  p=$(basename $f .py | tr c C)
  s=$(date +%s); out=$(./check $p --tier ${TIER:-quick} 2>&1); rc=$?
  echo "$p exit=$rc $(( $(date +%s)-s ))s $(echo "$out" | grep -m1 "^$p tier" | cut -c1-140) $(echo "$out" | grep -c '^KNOWN-FINDING') known"
done
