#!/bin/bash
# usage: tools/seed.sh verify <name>        - confirm a seeded change from /tmp/seeded_out/<name> (demo + suite) and copy it to /verif/seeded/<name>
#        tools/seed.sh run <name> <PID>...  - apply /verif/seeded/<name>/patch.diff to /repo, run the quick checks, undo
set -u
cmd=$1; name=$2; shift 2
V=/verif
case $cmd in
verify)
  src=/tmp/seeded_out/$name
  [ -f $src/patch.diff ] || { echo "no $src/patch.diff"; exit 2; }
  wt=/tmp/wt/verify_$name
  git -C /repo worktree remove --force $wt 2>/dev/null; rm -rf $wt; git -C /repo worktree prune; git -C /repo worktree add -q --detach $wt HEAD || exit 2
  ( cd $wt
    PYTHONPATH=$wt/src /venv/bin/python $src/demo.py >/tmp/demo_clean_$name.log 2>&1; clean=$?
    git apply $src/patch.diff || { echo "patch does not apply"; exit 2; }
    PYTHONPATH=$wt/src /venv/bin/python $src/demo.py >/tmp/demo_mut_$name.log 2>&1; mut=$?
    python3 $V/tools/baseline_check.py $wt > /tmp/suite_$name.log 2>&1; suite=$?
    echo "$name: demo_clean_exit=$clean demo_mutated_exit=$mut suite_ok_exit=$suite ($(tail -n +1 /tmp/suite_$name.log | head -1))"
    if [ $clean = 0 ] && [ $mut != 0 ] && [ $suite = 0 ]; then
      mkdir -p $V/seeded/$name && cp $src/patch.diff $src/demo.py $V/seeded/$name/
      python3 - "$src/meta.json" "$V/seeded/$name/meta.json" "$name" <<PY
import json,sys
try: m=json.load(open(sys.argv[1]))
except Exception as e: m={"meta_error":repr(e)}
m["confirmed_by_me"]={"demo_exit_unchanged_tree":0,"demo_exit_with_change":$mut,"suite":"all 1661 stable_pass tests pass with the change applied (tools/baseline_check.py in a scratch worktree)"}
json.dump(m,open(sys.argv[2],"w"),indent=1)
PY
      echo "  kept as $V/seeded/$name"
    else echo "  NOT kept"; fi )
  git -C /repo worktree remove --force $wt
  ;;
run)
  p=$V/seeded/$name/patch.diff
  git -C /repo diff --quiet || { echo "/repo has uncommitted changes"; exit 2; }
  git -C /repo apply $p || { echo "patch does not apply"; exit 2; }
  for pid in "$@"; do
    out=$(cd $V && VERIF_SEED=${VERIF_SEED:-0} ./check $pid --tier ${TIER:-quick} 2>&1); rc=$?
    echo "$name vs $pid: exit=$rc $(echo "$out" | grep -c '^VIOLATION') violation lines; $(echo "$out" | grep -m1 '^VIOLATION' | cut -c1-160)"
    echo "$out" | grep -E "^$pid tier|HARNESS" | head -3
  done
  git -C /repo checkout -- .
  ;;
esac
