#!/bin/bash
# usage: tools/mutate_queue.sh <worker-id> < queue-file   - each line: file|checks|tests|n|funcs(optional)
w=$1
export MUT_WT=/tmp/wt/mut$w
while IFS='|' read -r file checks tests n funcs; do
  [ -z "$file" ] && continue
  extra=""; [ -n "$funcs" ] && extra="--funcs $funcs"
  python3 /verif/tools/mutate.py "$file" "$checks" $tests --n "$n" $extra >> /tmp/mutq_$w.log 2>&1
done
